#!/usr/bin/env python3
"""Generates /verif/variants/{keep,break}-*.patch from textual edits against /repo's HEAD.
keep-*  : behaviour-preserving refactorings — every check must stay silent.
break-* : one instance of one rule broken — the named rule must fire (for the named property).
Each variant is described in variants/index.json (name, kind, properties, expected rule)."""
import json, os, shutil, subprocess, sys, tempfile

REPO = "/repo"
OUT = "/verif/variants"

V = []

def v(name, kind, props, expect, edits, note=""):
    V.append(dict(name=name, kind=kind, props=props, expect=expect, edits=edits, note=note))

P, L, R, E, V_, RN, B, RF, PG = ("parse.go", "internal/lex/lex.go", "pkg/lucene/reduce/reduce.go", "pkg/lucene/expr/expression.go",
                                "pkg/lucene/expr/validator.go", "pkg/lucene/expr/renderer.go", "pkg/driver/base.go", "pkg/driver/renderfn.go", "pkg/driver/postgresql.go")

# ---------------------------------------------------------------- keep (behaviour-preserving)
v("keep-rename-unexported", "keep", "all", "", [
    (R, "wrapLiteral", "scopeBareTerm"), (L, "lexWord", "lexBareWord"), (RF, "func rang(", "func rangeInline("), (B, "expr.Range:   rang,", "expr.Range:   rangeInline,"),
    (P, "parseLiteral", "tokenToLeaf"), (P, "shouldShift", "wantShift"), (B, "serializeParams", "serialiseP"), (B, "isSimple", "isAtom"),
    (E, "literalToExpr", "leafFromValue"), (V_, "isLiteralExpr", "isLeafExpr"),
], "renaming unexported identifiers must not matter (roles are resolved by use, not by name)")
v("keep-rename-reducers-and-renderfns", "keep", "all", "", [
    (R, "func fuzzy(", "func fuzzyOp("), (R, "\tfuzzy,\n", "\tfuzzyOp,\n"), (R, "func boost(", "func boostOp("), (R, "\tboost,\n", "\tboostOp,\n"),
    (R, "func rangeop(", "func rangeProduction("), (R, "\trangeop,\n", "\trangeProduction,\n"), (R, "func sub(", "func group("), (R, "\tsub,\n", "\tgroup,\n"),
    (R, "func must(", "func required("), (R, "\tmust,\n", "\trequired,\n"), (R, "func mustNot(", "func prohibited("), (R, "\tmustNot,\n", "\tprohibited,\n"),
    (RF, "func literal(", "func leaf("), (B, "expr.Literal: literal,", "expr.Literal: leaf,"), (B, "expr.Wild:      literal,", "expr.Wild:      leaf,"), (B, "expr.Regexp:    literal,", "expr.Regexp:    leaf,"), (PG, "expr.Literal: literal,", "expr.Literal: leaf,"),
    (RF, "func noop(", "func passThrough("), (B, "expr.Must:    noop, ", "expr.Must:    passThrough, "),
    (RF, "func toInts(", "func bothInts("), (RF, "toInts(rawMin, rawMax)", "bothInts(rawMin, rawMax)"), (RF, "func toFloats(", "func bothFloats("), (RF, "toFloats(rawMin, rawMax)", "bothFloats(rawMin, rawMax)"),
    (RF, "func rangParam(", "func rangeWithParams("), (B, "rangParam(left, right, rparams)", "rangeWithParams(left, right, rparams)"),
    (RF, "func likeParam(", "func likeWithParams("), (B, "likeParam(left, right, rparams)", "likeWithParams(left, right, rparams)"),
    (V_, "validateRange", "checkRange"), (RN, "renderRange", "printRange"), (RN, "renderList", "printList"),
], "renaming every reducer, render function and helper that carries a known finding must not change any verdict (keys are role-based)")
v("keep-reorder-reducers", "keep", "all", "", [
    (R, "\tand,\n\tor,\n\tequal,\n\tcompare,\n\tcompareEq,\n\tnot,\n\tsub,\n\tmust,\n\tmustNot,\n\tfuzzy,\n\tboost,\n\trangeop,\n",
        "\trangeop,\n\tboost,\n\tfuzzy,\n\tmustNot,\n\tmust,\n\tsub,\n\tnot,\n\tcompareEq,\n\tcompare,\n\tequal,\n\tor,\n\tand,\n"),
], "windows are pairwise disjoint, so the order of the reducer list is irrelevant")
v("keep-switch-in-reducer", "keep", "all", "", [
    (R, "\toperatorToken, ok := elems[1].(lex.Token)\n\tif !ok || operatorToken.Typ != lex.TAnd {\n\t\treturn elems, nonTerminals, false\n\t}",
        "\toperatorToken, ok := elems[1].(lex.Token)\n\tif !ok {\n\t\treturn elems, nonTerminals, false\n\t}\n\tswitch operatorToken.Typ {\n\tcase lex.TAnd:\n\tdefault:\n\t\treturn elems, nonTerminals, false\n\t}"),
], "if → switch")
v("keep-concat-instead-of-sprintf", "keep", "all", "", [
    (RF, 'return fmt.Sprintf("%s = %s", left, right), nil', 'return left + " = " + right, nil'),
    (RF, 'return fmt.Sprintf("(%s)", left), nil', 'return "(" + left + ")", nil'),
], "Sprintf → concatenation")
v("keep-bracket-predicate-switch", "keep", "all", "", [
    (P, "\treturn curr.Typ == lex.TRParen ||\n\t\tcurr.Typ == lex.TRSquare ||\n\t\tcurr.Typ == lex.TRCurly",
        "\tswitch curr.Typ {\n\tcase lex.TRParen, lex.TRSquare, lex.TRCurly:\n\t\treturn true\n\t}\n\treturn false"),
], "predicate rewritten as a switch")
v("keep-hoist-len", "keep", "all", "", [
    (R, "func rangeop(elems []any, nonTerminals []lex.Token, defaultField string) ([]any, []lex.Token, bool) {\n\t// we need a term, :, [, begin, TO, end, ] to have a range operator which is 7 elems\n\tif len(elems) != 7 {",
        "func rangeop(elems []any, nonTerminals []lex.Token, defaultField string) ([]any, []lex.Token, bool) {\n\tn := len(elems)\n\tif n != 7 {"),
], "len hoisted into a local")
v("keep-new-unranked-token", "keep", "all", "", [
    (L, "\tTLSquare\n\tTRSquare\n\n\t// start and end operators", "\tTLSquare\n\tTRSquare\n\tTReserved\n\n\t// start and end operators"),
    (L, '\tTStart:   "tSTART",\n}', '\tTStart:   "tSTART",\n\tTReserved: "tRESERVED",\n}'),
], "a new token type that no rule produces")
v("keep-contains-instead-of-containsrune", "keep", "all", "", [
    (B, "strings.ContainsRune(string(v), '\"')", 'strings.Contains(string(v), "\\"")'),
], "equivalent library call (both serialisers)")
v("keep-isspace-predicate", "keep", "all", "", [
    (L, "\t\tswitch l.next() {\n\t\tcase eof:\n\t\t\treturn nil\n\t\tcase ' ', '\\t', '\\r', '\\n':\n\t\t\tcontinue\n\t\tdefault:",
        "\t\tswitch r := l.next(); {\n\t\tcase r == eof:\n\t\t\treturn nil\n\t\tcase isSpace(r):\n\t\t\tcontinue\n\t\tdefault:"),
], "whitespace test through the existing isSpace helper")
v("keep-validator-reorder", "keep", "all", "", [
    (V_, "\tif e.Left == nil {\n\t\treturn errors.New(\"RANGE validation: term value must not be nil\")\n\t}\n\n\tif e.Right == nil {\n\t\treturn errors.New(\"RANGE validation: boundary value must not be nil\")\n\t}",
        "\tif e.Right == nil {\n\t\treturn errors.New(\"RANGE validation: boundary value must not be nil\")\n\t}\n\n\tif e.Left == nil {\n\t\treturn errors.New(\"RANGE validation: term value must not be nil\")\n\t}"),
], "order of independent checks")
v("keep-extract-inject-helper", "keep", "all", "", [
    (P, "func (p *parser) shift() (tok lex.Token) {", "func topIsOperandEnd(top any) bool {\n\ttopToken, isTopToken := top.(lex.Token)\n\treturn !isTopToken || anyClosingBracket(topToken)\n}\n\nfunc (p *parser) shift() (tok lex.Token) {"),
    (P, "\t\t\t\t\ttopToken, isTopToken := p.stack[len(p.stack)-1].(lex.Token)\n\t\t\t\t\t// a closing bracket ends an operand just like a parsed expression does\n\t\t\t\t\tif !isTopToken || anyClosingBracket(topToken) {",
        "\t\t\t\t\tif topIsOperandEnd(p.stack[len(p.stack)-1]) {"),
], "operand-end test extracted into a helper")
v("keep-errors-wording", "keep", "all", "", [
    (B, '"column name is empty"', '"empty column name"'), (P, '"multiple expressions left after parsing: %v"', '"%v: more than one expression left"'),
], "error message wording")

# ---------------------------------------------------------------- break (one instance of one rule)
v("break-c01-drop-len-guard", "break", "C01", "PANIC-IDX", [
    (R, "func must(elems []any, nonTerminals []lex.Token, defaultField string) ([]any, []lex.Token, bool) {\n\tif len(elems) != 2 {\n\t\treturn elems, nonTerminals, false\n\t}\n", "func must(elems []any, nonTerminals []lex.Token, defaultField string) ([]any, []lex.Token, bool) {\n\tif len(elems) > 2 {\n\t\treturn elems, nonTerminals, false\n\t}\n")])
v("break-c01-drop-count", "break", "C01", "RED-BAL", [(R, "return elems, drop(nonTerminals, 2), true\n}\n\nfunc compareEq", "return elems, drop(nonTerminals, 1), true\n}\n\nfunc compareEq")])
v("break-c01-panic", "break", "C01", "PANIC-EXPL", [(RF, "func noop(left, right string) (string, error) {\n", "func noop(left, right string) (string, error) {\n\tif right != \"\" {\n\t\tpanic(\"unreachable\")\n\t}\n")])
v("break-c01-verb", "break", "C01", "FMT", [(RN, 'return fmt.Sprintf("%v", e.Left)', 'return fmt.Sprintf("%s", e.Left)')])
v("break-c01-phrase-eof", "break", "C01", "LEX-LOOP", [(L, "\t\tcase r == open:\n\t\t\treturn l.emit(TQuoted)\n\t\tcase r == eof:\n\t\t\treturn l.errorf(\"unterminated quote\")\n", "\t\tcase r == open:\n\t\t\treturn l.emit(TQuoted)\n")])
v("break-c01-reduce-empty", "break", "C01", "", [(P, "\t\tif len(p.stack) == 0 {\n\t\t\treturn fmt.Errorf(\"error parsing, no items left to reduce, current state: %v\", top)\n\t\t}\n", "")])
v("break-c02-no-quote-check", "break", "C02", "SQL-TAINT", [(B, "\t\tif strings.ContainsRune(string(v), '\"') {\n\t\t\treturn \"\", fmt.Errorf(\"column name contains a double quote: %q\", v)\n\t\t}\n\t\t// Always escape column names with double quotes,\n\t\t// otherwise we need to know the reserved words\n\t\t// which might change in the future.\n\t\treturn fmt.Sprintf(`\"%s\"`, string(v)), nil", "\t\treturn fmt.Sprintf(`\"%s\"`, string(v)), nil")])
v("break-c02-no-doubling", "break", "C02", "SQL-TAINT", [(B, "return fmt.Sprintf(\"'%s'\", strings.ReplaceAll(v, \"'\", \"''\")), nil", "return fmt.Sprintf(\"'%s'\", v), nil")])
v("break-c02-nul", "break", "C02", "SQL-LEAF", [(RF, "\tif strings.ContainsRune(left, 0) {\n\t\treturn \"\", fmt.Errorf(\"literal contains null byte: %q\", left)\n\t}\n", "")])
v("break-c02-cast", "break", "C02", "SQL-VOCAB", [(RF, 'return fmt.Sprintf("%s IN %s", left, right), nil', 'return fmt.Sprintf("%s::text IN %s", left, right), nil')])
v("break-c02-cut-first-match", "break", "C02", "SPLIT-SAFE", [
    (RF, "\trangeSlice := strings.Split(stripped, \",\")\n\n\tif len(rangeSlice) != 2 {\n\t\treturn \"\", fmt.Errorf(\"the BETWEEN operator needs a two item list in the right hand side, have %s\", right)\n\t}\n\n\trawMin := strings.Trim(rangeSlice[0], \" \")\n\trawMax := strings.Trim(rangeSlice[1], \" \")\n\n\tiMin, iMax, err := toInts(rawMin, rawMax)\n\tif err == nil {\n\t\tif rawMin == \"'*'\" {\n\t\t\tif inclusive {\n\t\t\t\treturn fmt.Sprintf(\"%s <= %d\", left, iMax), nil",
         "\tminPart, maxPart, found := strings.Cut(stripped, \",\")\n\trangeSlice := []string{minPart, maxPart}\n\n\tif !found {\n\t\treturn \"\", fmt.Errorf(\"the BETWEEN operator needs a two item list in the right hand side, have %s\", right)\n\t}\n\n\trawMin := strings.Trim(rangeSlice[0], \" \")\n\trawMax := strings.Trim(rangeSlice[1], \" \")\n\n\tiMin, iMax, err := toInts(rawMin, rawMax)\n\tif err == nil {\n\t\tif rawMin == \"'*'\" {\n\t\t\tif inclusive {\n\t\t\t\treturn fmt.Sprintf(\"%s <= %d\", left, iMax), nil"),
], "strings.Cut without checking that the separator does not occur again: a first-match split")
v("break-c02-finite", "break", "C02", "NUM-FINITE", [(P, "if err == nil && !math.IsNaN(fval) && !math.IsInf(fval, 0) {", "if err == nil && !math.IsNaN(fval) {")])
v("break-c03-swap-ops", "break", "C03", "SQL-OPMAP", [(B, "expr.Greater:   greater,\n\texpr.GreaterEq: greaterEq,", "expr.Greater:   greaterEq,\n\texpr.GreaterEq: greater,")])
v("break-c03-range-op", "break", "C03", "SQL-RANGE", [(RF, 'return fmt.Sprintf("%s >= %d", left, iMin), nil', 'return fmt.Sprintf("%s > %d", left, iMin), nil')])
v("break-c03-exempt", "break", "C03", "SQL-PAREN", [(B, "\tif e.Op != expr.Range &&\n\t\te.Op != expr.Not &&\n\t\te.Op != expr.List &&\n\t\te.Op != expr.In &&\n\t\te.Op != expr.Literal &&\n\t\te.Op != expr.Must &&\n\t\te.Op != expr.MustNot {\n\t\tif !b.isSimple(e.Left) {\n\t\t\tleft = \"(\" + left + \")\"\n\t\t}\n\t\tif !b.isSimple(e.Right) {\n\t\t\tright = \"(\" + right + \")\"\n\t\t}\n\t}\n\n\tfn, ok := b.RenderFNs[e.Op]\n\tif !ok {\n\t\treturn s, fmt.Errorf(",
    "\tif e.Op != expr.Range &&\n\t\te.Op != expr.Not &&\n\t\te.Op != expr.List &&\n\t\te.Op != expr.In &&\n\t\te.Op != expr.Literal &&\n\t\te.Op != expr.Must &&\n\t\te.Op != expr.Or &&\n\t\te.Op != expr.MustNot {\n\t\tif !b.isSimple(e.Left) {\n\t\t\tleft = \"(\" + left + \")\"\n\t\t}\n\t\tif !b.isSimple(e.Right) {\n\t\t\tright = \"(\" + right + \")\"\n\t\t}\n\t}\n\n\tfn, ok := b.RenderFNs[e.Op]\n\tif !ok {\n\t\treturn s, fmt.Errorf(")])
v("break-c04-param-order", "break", "C04", "PH-LINEAR", [(B, "params = append(lparams, rparams...)", "params = append(rparams, lparams...)")])
v("break-c04-inline-string", "break", "C04", "", [(B, '\tcase string:\n\t\treturn "?", []any{v}, nil', '\tcase string:\n\t\treturn fmt.Sprintf("\'%s\'", v), params, nil')])
v("break-c04-like-threshold", "break", "C04", "SIB-LIKE", [(RF, "if len(pright) >= 2 && pright[0] == '/'", "if len(pright) >= 3 && pright[0] == '/'")])
v("break-c05-prec-order", "break", "C05", "PREC-TABLE", [(L, "\tTNot\n\tTAnd\n\tTOr\n", "\tTNot\n\tTOr\n\tTAnd\n")])
v("break-c05-right-assoc", "break", "C05", "PREC-TABLE", [(L, "\treturn current.Typ > next.Typ", "\treturn current.Typ >= next.Typ"), (L, "\tif current.Typ == next.Typ {\n\t\treturn false\n\t}\n", "")])
v("break-c05-swap-cmp", "break", "C05", "PROD-TABLE", [(R, "\tif tokCmp.Typ == lex.TGreater {\n\t\telems = []any{\n\t\t\texpr.GREATER(", "\tif tokCmp.Typ == lex.TLess {\n\t\telems = []any{\n\t\t\texpr.GREATER(")])
v("break-c06-drop-typ-test", "break", "C06", "PROD", [(R, "\tto, ok := elems[4].(lex.Token)\n\tif !ok || to.Typ != lex.TTO {", "\t_, ok = elems[4].(lex.Token)\n\tif !ok {")])
v("break-c06-accept-many", "break", "C06", "ACCEPT", [(P, "\treturn len(p.stack) == 1 &&\n\t\tnext.Typ == lex.TEOF", "\treturn len(p.stack) >= 1 &&\n\t\tnext.Typ == lex.TEOF"), (P, "\t\t\tif len(p.stack) != 1 {\n", "\t\t\tif len(p.stack) < 1 {\n")])
v("break-c06-no-validate", "break", "C06", "VALIDATE-DOM", [(P, "\terr = expr.Validate(ex)\n\tif err != nil {\n\t\treturn e, err\n\t}\n", "")])
v("break-c07-if-again", "break", "C07", "PUSH-STATE", [(P, "for !p.shouldShift(implAnd) {", "if !p.shouldShift(implAnd) {")])
v("break-c07-inject-or", "break", "C07", "IMPL-AND", [(P, 'implAnd := lex.Token{Typ: lex.TAnd, Val: "AND"}', 'implAnd := lex.Token{Typ: lex.TOr, Val: "AND"}')])
v("break-c08-phrase-escape", "break", "C08", "PHRASE-LOOP", [(L, "\t\tcase isAlphaNumeric(r) || isWildcard(r) || isEscape(r):\n\t\t\t// do nothing\n\t\tcase r == ' ' || r == '\\t' || r == '\\r' || r == '\\n':\n\t\t\t// do nothing\n\t\tcase r == open:\n\t\t\treturn l.emit(TQuoted)",
    "\t\tcase isEscape(r):\n\t\t\tl.next()\n\t\tcase isAlphaNumeric(r) || isWildcard(r):\n\t\t\t// do nothing\n\t\tcase r == ' ' || r == '\\t' || r == '\\r' || r == '\\n':\n\t\t\t// do nothing\n\t\tcase r == open:\n\t\t\treturn l.emit(TQuoted)")])
v("break-c08-quoted-number", "break", "C08", "LIT-TYPE", [(P, "\t// if it is a quote then remove escape\n\tif token.Typ == lex.TQuoted {\n\t\treturn expr.Lit(strings.ReplaceAll(token.Val, \"\\\"\", \"\")), nil\n\t}\n", "\tif token.Typ == lex.TQuoted {\n\t\ttoken.Val = strings.ReplaceAll(token.Val, \"\\\"\", \"\")\n\t}\n")])
v("break-c09-no-upper", "break", "C09", "KW-CASE", [(L, "switch strings.ToUpper(l.currWord()) {", "switch strings.TrimSpace(l.currWord()) {")])
v("break-c09-newline", "break", "C09", "WS-SET", [(L, "\t\tcase ' ', '\\t', '\\r', '\\n':\n\t\t\tcontinue", "\t\tcase ' ', '\\t', '\\r':\n\t\t\tcontinue")])
v("break-c10-partial", "break", "C10", "RET-PAIR", [(P, "\terr = expr.Validate(ex)\n\tif err != nil {\n\t\treturn e, err\n\t}", "\terr = expr.Validate(ex)\n\tif err != nil {\n\t\treturn ex, err\n\t}")])
v("break-c10-validator-entry", "break", "C10", "VAL-TOTAL", [(V_, "\tIn:        validateIn,\n", "")])
v("break-c10-range-bounds", "break", "C10", "VAL-SHAPE", [(V_, "\tif !isLiteralExpr(boundary.Max) {\n\t\treturn fmt.Errorf(\"RANGE validation: range maximum must be a literal, not %s\", reflect.TypeOf(boundary.Max))\n\t}\n", "")])
v("break-c11-no-wrap", "break", "C11", "DF-COVER", [(R, "\t\texpr.OR(\n\t\t\twrapLiteral(left, defaultField),\n\t\t\twrapLiteral(right, defaultField),", "\t\texpr.OR(\n\t\t\twrapLiteral(left, defaultField),\n\t\t\tright,")])
v("break-c11-guard-on-option", "break", "C11", "DF-FLOW", [(R, "\tif literals, ok := isChainedOrLiterals(value); ok && len(literals) > 1 {", "\tif literals, ok := isChainedOrLiterals(value); ok && len(literals) > 1 && defaultField == \"\" {")])
v("break-c12-name-typo", "break", "C12", "OP-BIJ", [(E.replace("expression.go", "operator.go"), '"GREATER_EQ": GreaterEq,', '"GREATER_EQUAL": GreaterEq,')])
v("break-c12-default", "break", "C12", "JSON-DEFAULTS", [(E, "\tif e.Op == Fuzzy {\n\t\te.fuzzyDistance = 1\n", "\tif e.Op == Fuzzy {\n\t\te.fuzzyDistance = 0\n")])
v("break-c12-tag", "break", "C12", "JSON-TAGS", [(E, 'Min       any  `json:"min"`', 'Min       any  `json:"minimum"`')])
v("break-c13-index", "break", "C13", "PANIC-IDX", [(E, "\tif len(s) > 0 && s[0] == '/' && s[len(s)-1] == '/' {", "\tif s[0] == '/' && s[len(s)-1] == '/' {")])
v("break-c13-validator-weaker", "break", "C13", "PANIC-ASSERT", [(V_, "\tboundary, isBoundary := e.Right.(*RangeBoundary)\n\tif !isBoundary {\n\t\treturn fmt.Errorf(\"RANGE validation: invalid range boundary - incorrect type [%s]\", reflect.TypeOf(e.Right))\n\t}\n\n\tif boundary == nil {", "\tboundary, _ := e.Right.(*RangeBoundary)\n\tif boundary == nil && e.Right == nil {")])
v("break-c14-global-cache", "break", "C14", "PUR-G", [(P, "type opt func(*parser)\n", "type opt func(*parser)\n\nvar lastInput string\n"), (P, "\tp := &parser{\n", "\tlastInput = input\n\tp := &parser{\n")])
v("break-c14-inplace", "break", "C14", "PUR-ARG", [(B, "\t\tif isStr && (len(rval) < 2 || rval[0] != '/' || rval[len(rval)-1] != '/') {\n\t\t\trval = strings.ReplaceAll(rval, \"*\", \"%\")\n\t\t\trval = strings.ReplaceAll(rval, \"?\", \"_\")\n\t\t\trparams[0] = rval\n\t\t}",
    "\t\tif isStr && (len(rval) < 2 || rval[0] != '/' || rval[len(rval)-1] != '/') {\n\t\t\trval = strings.ReplaceAll(rval, \"*\", \"%\")\n\t\t\trval = strings.ReplaceAll(rval, \"?\", \"_\")\n\t\t\trparams[0] = rval\n\t\t\tif re, ok := e.Right.(*expr.Expression); ok {\n\t\t\t\tre.Left = rval\n\t\t\t}\n\t\t}")])
v("break-c14-alias-shared", "break", "C14", "PUR-G", [(PG, "\tfns := map[expr.Operator]RenderFN{\n\t\texpr.Literal: literal,\n\t}\n\n\tfor op, sharedFN := range Shared {\n\t\t_, found := fns[op]\n\t\tif !found {\n\t\t\tfns[op] = sharedFN\n\t\t}\n\t}\n", "\tfns := Shared\n\tfns[expr.Literal] = literal\n")])
v("break-c15-swap-args", "break", "C15", "FOLD", [(B, "\treturn fn(left, right)\n}", "\treturn fn(right, left)\n}")])
v("break-c15-shortcut-must", "break", "C15", "FOLD", [(B, "\tfn, ok := b.RenderFNs[e.Op]\n\tif !ok {\n\t\treturn s, fmt.Errorf(\"unable to render operator [%s]\", e.Op)\n\t}\n\n\treturn fn(left, right)", "\tif e.Op == expr.Must {\n\t\treturn left, nil\n\t}\n\n\tfn, ok := b.RenderFNs[e.Op]\n\tif !ok {\n\t\treturn s, fmt.Errorf(\"unable to render operator [%s]\", e.Op)\n\t}\n\n\treturn fn(left, right)")])
v("break-c15-fuzzy-noop", "break", "C15", "TABLE-KEYS", [(B, "\t// expr.Fuzzy:     unsupported,\n", "\texpr.Fuzzy:     noop,\n")])
v("break-c16-peek-pointer", "break", "C16", "LEX-PEEK", [(L, "func (l Lexer) Peek() Token {", "func (l *Lexer) Peek() Token {")])
v("break-c16-no-minus", "break", "C16", "LEX-FIRST", [(L, "\t\tcase isAlphaNumeric(r) || isWildcard(r) || r == '.' || r == '-':\n\t\t\t// do nothing\n\t\tcase isEscape(r):\n\t\t\tl.next() // just ignore the next character\n\t\tdefault:\n\t\t\tl.backup()\n\t\t\tbreak loop", "\t\tcase isAlphaNumeric(r) || isWildcard(r) || r == '.':\n\t\t\t// do nothing\n\t\tcase isEscape(r):\n\t\t\tl.next() // just ignore the next character\n\t\tdefault:\n\t\t\tl.backup()\n\t\t\tbreak loop")])
v("break-c16-start-plus-one", "break", "C16", "LEX-WRITE", [(L, "\t// update the lexer's start for the next token to be the current position\n\tl.start = l.pos", "\t// update the lexer's start for the next token to be the current position\n\tl.start = l.pos + 1")])
v("break-c16-errorf-no-truncate", "break", "C16", "LEX-ERR", [(L, "\tl.start = 0\n\tl.pos = 0\n\tl.input = l.input[:0]\n\treturn nil", "\treturn nil")])
v("break-c16-double-backup", "break", "C16", "LEX-DEPTH", [(L, "\t\tdefault:\n\t\t\t// transition to being in a value\n\t\t\tl.backup()\n\t\t\treturn lexVal", "\t\tdefault:\n\t\t\t// transition to being in a value\n\t\t\tl.backup()\n\t\t\tl.backup()\n\t\t\treturn lexVal")])

v("break-c03-ctor-range-swap", "break", "C03", "CTOR-SHAPE", [(E, "\t\t\tMin:       literalToExpr(right[0]),\n\t\t\tMax:       literalToExpr(right[1]),", "\t\t\tMin:       literalToExpr(right[1]),\n\t\t\tMax:       literalToExpr(right[0]),")])
v("break-c03-and-chain-as-list", "break", "C03", "CTOR-SHAPE", [(R, "\tif in.Op == expr.Or {\n\t\tleft, ok := in.Left.(*expr.Expression)", "\tif in.Op == expr.Or || in.Op == expr.And {\n\t\tleft, ok := in.Left.(*expr.Expression)")])
v("break-c06-like-for-any-op", "break", "C06", "CTOR-SHAPE", [(E, "\tif op == Equals && len(right) == 1 && shouldUseLikeOperator(right[0]) {", "\tif len(right) == 1 && shouldUseLikeOperator(right[0]) {")])
v("break-c04-list-params-prepend", "break", "C04", "PH-LINEAR", [(B, "\t\t\tparams = append(params, eparams...)", "\t\t\tparams = append(eparams, params...)")])
v("keep-wrapper-plain-field", "keep", "all", "", [(R, "return expr.Eq(expr.Column(field), lit)", "return expr.Eq(field, lit)")], "the general constructor wraps a string field of a column operator in a Column itself")

v("break-c16-hash-is-word", "break", "C16", "LEX-DISPATCH", [(L, "\treturn r == '_' || unicode.IsLetter(r) || unicode.IsDigit(r)", "\treturn r == '_' || r == '#' || unicode.IsLetter(r) || unicode.IsDigit(r)")])
v("break-c06-bang-symbol", "break", "C06", "LEX-DISPATCH", [(L, "\t'<': TLess,\n", "\t'<': TLess,\n\t'!': TNot,\n")])
v("keep-symbols-switch", "keep", "all", "", [
    (L, "\tcase isSymbol(r):\n\t\treturn l.emit(symbols[r])", "\tcase isSymbol(r):\n\t\treturn l.emit(symbolType(r))"),
    (L, "// isSymbol checks whether the run is one of the reserved symbols", "// symbolType returns the token type of a reserved symbol\nfunc symbolType(r rune) TokType {\n\tswitch r {\n\tcase '(':\n\t\treturn TLParen\n\tcase ')':\n\t\treturn TRParen\n\tcase '[':\n\t\treturn TLSquare\n\tcase ']':\n\t\treturn TRSquare\n\tcase '{':\n\t\treturn TLCurly\n\tcase '}':\n\t\treturn TRCurly\n\tcase ':':\n\t\treturn TColon\n\tcase '+':\n\t\treturn TPlus\n\tcase '=':\n\t\treturn TEqual\n\tcase '>':\n\t\treturn TGreater\n\tcase '~':\n\t\treturn TTilde\n\tcase '^':\n\t\treturn TCarrot\n\tcase '<':\n\t\treturn TLess\n\t}\n\treturn TErr\n}\n\n// isSymbol checks whether the run is one of the reserved symbols"),
], "symbol token type through a switch helper instead of the table lookup (isSymbol still uses the table)")

v("keep-compare-factory", "keep", "all", "", [
    (RF, "func greater(left, right string) (string, error) {\n\treturn fmt.Sprintf(\"%s > %s\", left, right), nil\n}", "func compareWith(op string) RenderFN {\n\treturn func(left, right string) (string, error) {\n\t\treturn fmt.Sprintf(\"%s %s %s\", left, op, right), nil\n\t}\n}"),
    (B, "expr.Greater:   greater,", "expr.Greater:   compareWith(\">\"),"),
], "a comparison render function produced by a closure factory bound to a constant operator string")


# ---------------------------------------------------------------- round-6 rules (standard-library contracts)
RD = "render.go"
v("break-c02-fmt-verb-any", "break", "C02", "FMT", [
    (RF, 'return fmt.Sprintf("%s <= %d", left, iMax), nil', 'return cmpNum(left, "<=", iMax), nil'),
    (RF, 'return fmt.Sprintf("%s <= %.2f", left, fMax), nil', 'return cmpNum(left, "<=", fMax), nil'),
    (RF, "func rangParam(", "func cmpNum(left, op string, bound any) string {\n\treturn fmt.Sprintf(\"%s %s %d\", left, op, bound)\n}\n\nfunc rangParam("),
], "%d applied to an `any` parameter that holds a float64 at one call site")
v("break-c03-parseint-32", "break", "C03", "NUM-BASE", [
    (RF, "\tiMin, err = strconv.Atoi(rawMin)\n", "\tvar w int64\n\tw, err = strconv.ParseInt(rawMin, 10, 32)\n\tiMin = int(w)\n"),
], "integer bounds parsed with bit size 32")
v("break-c12-boost-nan", "break", "C12", "NUM-FINITE", [
    (R, "if err == nil && pf > 0 && !math.IsInf(pf, 1) {", "if err == nil && !(pf <= 0) && !math.IsInf(pf, 1) {"),
], "negated comparison lets NaN through as a boost power")
v("break-c12-boost-inf", "break", "C12", "NUM-FINITE", [
    (R, "if err == nil && pf > 0 && !math.IsInf(pf, 1) {", "if err == nil && pf > 0 {"),
    (R, '\t"math"\n', ""),
], "the repaired defect returns: +Inf accepted as a boost power")
v("break-c13-iface-eq", "break", "C13", "PANIC-CMP", [
    (E, "\t\tif !IsExpr(boundary.Min) {\n", "\t\tif boundary.Min != nil && boundary.Min == boundary.Max {\n\t\t\tboundary.Inclusive = true\n\t\t}\n\t\tif !IsExpr(boundary.Min) {\n"),
], "two decoded interface values compared with ==")
v("break-c13-nil-invoke", "break", "C13", "PANIC-NILCALL", [
    (V_, "func isFloat(in any) bool {\n\tswitch in.(type) {\n\tcase float32, float64:\n\t\treturn true\n\tdefault:\n\t\treturn false\n\t}",
         "func isFloat(in any) bool {\n\tswitch reflect.TypeOf(in).Kind() {\n\tcase reflect.Float32, reflect.Float64:\n\t\treturn true\n\tdefault:\n\t\treturn false\n\t}"),
], "method call on reflect.TypeOf(x), which is nil for a nil x")
v("keep-reflect-kind-guarded", "keep", "all", "", [
    (V_, "func isFloat(in any) bool {\n\tswitch in.(type) {\n\tcase float32, float64:\n\t\treturn true\n\tdefault:\n\t\treturn false\n\t}",
         "func isFloat(in any) bool {\n\tif in == nil {\n\t\treturn false\n\t}\n\tswitch reflect.TypeOf(in).Kind() {\n\tcase reflect.Float32, reflect.Float64:\n\t\treturn true\n\tdefault:\n\t\treturn false\n\t}"),
], "the same through reflect, under a nil test")
v("break-c08-byte-rune", "break", "C08", "TEXT-UNIT", [
    (P, "\t\treturn expr.Lit(unescaper.Replace(token.Val)), nil", "\t\tvar sb strings.Builder\n\t\tfor i := 0; i < len(token.Val); i++ {\n\t\t\tif token.Val[i] == '\\\\' {\n\t\t\t\ti++\n\t\t\t\tif i == len(token.Val) {\n\t\t\t\t\tbreak\n\t\t\t\t}\n\t\t\t}\n\t\t\tsb.WriteRune(rune(token.Val[i]))\n\t\t}\n\t\treturn expr.Lit(sb.String()), nil"),
], "bytes of the term re-encoded one by one as runes")
v("keep-local-unescaper", "keep", "all", "", [
    (P, "\t\treturn expr.Lit(unescaper.Replace(token.Val)), nil", "\t\treturn expr.Lit(strings.NewReplacer(`\\\\`, `\\`, `\\`, \"\").Replace(token.Val)), nil"),
], "the same replacer built in place instead of once at package level")
v("break-c12-marshal-ptr-recv", "break", "C12", "JSON-METHODS", [
    (E, "func (e Expression) MarshalJSON() (out []byte, err error) {", "func (e *Expression) MarshalJSON() (out []byte, err error) {"),
], "MarshalJSON on the pointer receiver only")
v("break-c12-parsebool-first", "break", "C12", "JSON-LEAF-ORDER", [
    (E, "\t// check if it is an int first because all ints can be parsed as floats\n", "\tif b, berr := strconv.ParseBool(string(in)); berr == nil {\n\t\treturn Lit(b), nil\n\t}\n\t// check if it is an int first because all ints can be parsed as floats\n"),
], "ParseBool tried before Atoi in the decoder")
v("break-c11-accept-unguarded", "break", "C11", "DF-COVER", [
    (P, 'if final.Op == expr.Literal && p.defaultField != "" {', 'if p.defaultField != "" && final.Op == expr.Literal || final.Op == expr.Wild {'),
], "operator precedence: a lone wildcard is scoped without a default field")
v("break-c11-equals-content", "break", "C11", "DF-VALID", [
    (V_, "func validateCompare(e *Expression) (err error) {", "func plainText(in any) bool {\n\tx, ok := in.(*Expression)\n\tif !ok || x == nil {\n\t\treturn true\n\t}\n\ts, ok := x.Left.(string)\n\tif !ok {\n\t\treturn true\n\t}\n\tfor _, r := range s {\n\t\tif r == 0 {\n\t\t\treturn false\n\t\t}\n\t}\n\treturn true\n}\n\nfunc validateCompare(e *Expression) (err error) {"),
    (V_, '\t\treturn errors.New("EQUALS validation: left value must be a literal expression")\n\t}\n', '\t\treturn errors.New("EQUALS validation: left value must be a literal expression")\n\t}\n\tif !plainText(e.Right) {\n\t\treturn errors.New("EQUALS validation: value contains a null byte")\n\t}\n'),
], "the Equals validator rejects by the characters of the value")
v("break-c16-peek-early", "break", "C16", "LEX-BACKUP", [
    (L, "\tswitch r := l.next(); {\n\tcase isAlphaNumeric(r) || isWildcard(r) || isEscape(r):\n\t\tl.backup()\n\t\treturn lexWord\n\tcase isSymbol(r):",
        "\tr := l.next()\n\tbeforeDigit := unicode.IsDigit(l.peek())\n\t_ = beforeDigit\n\tswitch {\n\tcase isAlphaNumeric(r) || isWildcard(r) || isEscape(r):\n\t\tl.backup()\n\t\treturn lexWord\n\tcase isSymbol(r):"),
], "a look-ahead between the read and the backup that is meant to undo it")
v("break-c06-leading-zero-cutset", "break", "C06", "LIT-TYPE", [
    (P, "\tival, err := strconv.Atoi(token.Val)\n\tif err == nil {", "\tnumeric := strings.TrimLeft(token.Val, \"0\") == token.Val\n\tival, err := strconv.Atoi(token.Val)\n\tif err == nil && numeric {"),
], "an extra condition ignores a successful integer reading")
v("keep-err-error-call", "keep", "all", "", [
    (RD, "\te, err := Parse(in, opts...)\n\tif err != nil {\n\t\treturn \"\", err\n\t}\n\n\treturn postgres.Render(e)", "\te, err := Parse(in, opts...)\n\tif err != nil {\n\t\treturn \"\", errors.New(err.Error())\n\t}\n\n\treturn postgres.Render(e)"),
    (RD, 'import "github.com/grindlemire/go-lucene/pkg/driver"', 'import (\n\t"errors"\n\n\t"github.com/grindlemire/go-lucene/pkg/driver"\n)'),
], "a method call on an error under err != nil")

# ---------------------------------------------------------------- round 7 rules
v("break-c08-drop-all-backslashes", "break", "C08", "ESC-DECODE", [
    (P, "\t\treturn expr.Lit(unescaper.Replace(token.Val)), nil", "\t\treturn expr.Lit(strings.ReplaceAll(token.Val, `\\`, \"\")), nil"),
], "the reverse of the escaped-backslash repair")
v("break-c08-unescape-specials-only", "break", "C08", "ESC-DECODE", [
    (P, "var unescaper = strings.NewReplacer(`\\\\`, `\\`, `\\`, \"\")", "var unescaper = strings.NewReplacer(`\\\\`, `\\`, `\\:`, \":\", `\\ `, \" \", `\\(`, \"(\", `\\)`, \")\")"),
], "only some escapes are decoded")
v("break-c03-bound-unit-wrong-end", "break", "C03", "BOUND-UNIT", [
    (RF, "\tfMax, err = strconv.ParseFloat(rawMax, 64)\n\tif rawMax != \"'*'\" && err != nil {", "\tfMax, err = strconv.ParseFloat(rawMax, 64)\n\tif rawMin != \"'*'\" && err != nil {"),
], "the error of the upper bound excused by the lower bound being open")
v("break-c13-typed-nil-operand", "break", "C13", "NIL-TYPED", [
    (E, "\t\te.Left = ptr(empty())\n\t\terr = json.Unmarshal(c.Left, e.Left)\n\t\tif err != nil {\n\t\t\treturn err\n\t\t}", "\t\tvar l *Expression\n\t\terr = json.Unmarshal(c.Left, &l)\n\t\tif err != nil {\n\t\t\treturn err\n\t\t}\n\t\te.Left = l"),
], "encoding/json allocates the operand: null leaves a typed nil")
v("break-c08-rewrite-any-single-param", "break", "C08", "PARAM-VERBATIM", [
    (B, "\tif e.Op == expr.Like && len(rparams) == 1 {", "\tif e.Op == expr.Like || len(rparams) == 1 {"),
], "wildcard translation applied to every operator with one right-hand parameter")
v("break-c06-distance-zero-dropped", "break", "C06", "CTOR-ATTR", [
    (E, "\t\tif len(right) == 1 && isInt(right[0]) {\n\t\t\te.fuzzyDistance = right[0].(int)\n\t\t}", "\t\tif len(right) == 1 && isInt(right[0]) && right[0].(int) > 0 {\n\t\t\te.fuzzyDistance = right[0].(int)\n\t\t}"),
], "an explicit distance 0 is replaced by the default")
v("keep-power-nonnegative-guard", "keep", "all", "", [
    (E, "\t\tif len(right) == 1 && isFloat(right[0]) {\n\t\t\te.boostPower = right[0].(float64)\n\t\t}", "\t\tif len(right) == 1 && isFloat(right[0]) && right[0].(float64) >= 0 {\n\t\t\te.boostPower = right[0].(float64)\n\t\t}"),
], "a guard every production satisfies (powers are > 0) changes nothing Parse can produce")
v("break-c15-wrapper-drops-modifier", "break", "C15", "WRAP-KEEP", [
    (R, "func wrapLiteral(lit *expr.Expression, field string) *expr.Expression {\n", "func wrapLiteral(lit *expr.Expression, field string) *expr.Expression {\n\tif inner, ok := lit.Left.(*expr.Expression); ok && (lit.Op == expr.Fuzzy || lit.Op == expr.Boost) {\n\t\tlit = inner\n\t}\n"),
], "the default-field wrapper looks through ~ and ^ and forgets them")
v("break-c15-nil-operand-text", "break", "C15", "FOLD", [
    (B, "func (b Base) serialize(in any) (s string, err error) {\n\tif in == nil {\n\t\treturn \"\", nil\n\t}\n", "func (b Base) serialize(in any) (s string, err error) {\n"),
], "an absent operand rendered as <nil>")
v("break-c14-shared-builder", "break", "C14", "PUR-ARG", [
    (RF, "func basicCompound(op expr.Operator) RenderFN {\n\treturn func(left, right string) (string, error) {\n\t\treturn fmt.Sprintf(\"%s %s %s\", left, op, right), nil\n\t}", "func basicCompound(op expr.Operator) RenderFN {\n\tvar sb strings.Builder\n\treturn func(left, right string) (string, error) {\n\t\tsb.Reset()\n\t\tsb.WriteString(left)\n\t\tsb.WriteString(\" \" + op.String() + \" \")\n\t\tsb.WriteString(right)\n\t\treturn sb.String(), nil\n\t}"),
], "one strings.Builder captured by the AND/OR render closures")
v("keep-local-builder", "keep", "all", "", [
    (RF, "func basicCompound(op expr.Operator) RenderFN {\n\treturn func(left, right string) (string, error) {\n\t\treturn fmt.Sprintf(\"%s %s %s\", left, op, right), nil\n\t}", "func basicCompound(op expr.Operator) RenderFN {\n\treturn func(left, right string) (string, error) {\n\t\tvar sb strings.Builder\n\t\tsb.WriteString(left)\n\t\tsb.WriteString(\" \" + op.String() + \" \")\n\t\tsb.WriteString(right)\n\t\treturn sb.String(), nil\n\t}"),
], "a strings.Builder local to the call")
v("break-c01-nil-before-ok", "break", "C01", "NIL-ASSERT", [
    (P, "\t\t\tfinal, ok := p.stack[0].(*expr.Expression)\n\t\t\tif !ok {", "\t\t\tfinal, ok := p.stack[0].(*expr.Expression)\n\t\t\tfinal = p.scopeSingle(final)\n\t\t\tif !ok {"),
    (P, "func (p *parser) shift() (tok lex.Token) {", "func (p *parser) scopeSingle(lit *expr.Expression) *expr.Expression {\n\tif p.defaultField != \"\" && lit.Op == expr.Literal {\n\t\treturn lit\n\t}\n\treturn lit\n}\n\nfunc (p *parser) shift() (tok lex.Token) {"),
], "a helper dereferences the asserted pointer before ok is tested")

# ---------------------------------------------------------------- round 8 / mutation-study rules
v("break-c09-token-adjacency", "break", "C09", "TOK-LAYOUT", [
    (L, "// String is a string representation of a lex item", "// Follows reports whether the token starts where prev ends.\nfunc (i Token) Follows(prev Token) bool {\n\treturn prev.pos+len(prev.Val) == i.pos\n}\n\n// String is a string representation of a lex item"),
], "a token position read to test adjacency")
v("break-c11-classify-raw-field", "break", "C11", "CTOR-COLUMN", [
    (E, "\tif isStringlike(left) && operatesOnColumn(op) {\n\t\tleft = wrapInColumn(left)\n\t}\n\n\tif isLiteral(left) && op != Literal && op != Wild && op != Regexp {\n\t\tleft = literalToExpr(left)\n\t}\n",
        "\tif isLiteral(left) && op != Literal && op != Wild && op != Regexp {\n\t\tleft = literalToExpr(left)\n\t}\n\n\tif isStringlike(left) && operatesOnColumn(op) {\n\t\tleft = wrapInColumn(left)\n\t}\n"),
    (E, "\te, isExpr := in.(*Expression)\n\tif isExpr {\n\t\ts, isStr = e.Left.(string)", "\te, isExpr := in.(*Expression)\n\tif isExpr && e.Op == Literal {\n\t\ts, isStr = e.Left.(string)"),
], "the raw field string is classified by content before it is made a column")
v("break-c05-boost-threshold", "break", "C05", "ATTR-DOMAIN", [
    (R, "\tif err == nil && pf > 0 && !math.IsInf(pf, 1) {", "\tif err == nil && pf > 1 && !math.IsInf(pf, 1) {"),
], "powers between 0 and 1 no longer parse")
v("break-c12-bound-via-float", "break", "C12", "JSON-NUM-EXACT", [
    (E, "\t\tif i, ierr := strconv.Atoi(string(raw.Min)); ierr == nil {\n\t\t\tboundary.Min = i\n\t\t}\n", ""),
], "the reverse of the exact-integer-bound repair (lower bound)")
v("break-c10-float-not-a-literal", "break", "C10", "VAL-KINDS", [
    (V_, "\treturn isInt(in) || isFloat(in)", "\treturn isInt(in) || isInt(in)"),
], "float payloads are no longer literals for the validators")
v("break-c08-bounds-unquoted", "break", "C08", "BOUND-UNIT", [
    (RF, "\trawMin := strings.Trim(rangeSlice[0], \" \")\n\trawMax := strings.Trim(rangeSlice[1], \" \")\n\n\tiMin, iMax, err := toInts(rawMin, rawMax)\n\tif err == nil {\n\t\tif rawMin == \"'*'\" {\n\t\t\tif inclusive {\n\t\t\t\treturn fmt.Sprintf(\"%s <= %d\", left, iMax), nil",
         "\trawMin := strings.Trim(rangeSlice[0], \" \")\n\trawMax := strings.Trim(rangeSlice[1], \" \")\n\n\tiMin, iMax, err := toInts(strings.Trim(rawMin, \"'\"), strings.Trim(rawMax, \"'\"))\n\tif err == nil {\n\t\tif rawMin == \"'*'\" {\n\t\t\tif inclusive {\n\t\t\t\treturn fmt.Sprintf(\"%s <= %d\", left, iMax), nil"),
], "quotes trimmed before the integer reading: a quoted 007 becomes a number")
v("break-c14-shared-start-stack", "break", "C14", "PUR-ARG", [
    (P, "func Parse(input string, opts ...opt) (e *expr.Expression, err error) {", "var startTokens = append(make([]lex.Token, 0, 8), lex.Token{Typ: lex.TStart})\n\nfunc Parse(input string, opts ...opt) (e *expr.Expression, err error) {"),
    (P, "nonTerminals: []lex.Token{{Typ: lex.TStart}},", "nonTerminals: startTokens,"),
], "the per-call operator stack starts as a package-level slice with spare capacity")
v("break-c15-list-trim-cutset", "break", "C15", "FOLD", [
    (B, "\t\treturn strings.Join(strs, \", \"), nil\n", "\t\treturn strings.TrimRight(strings.Join(strs, \", \")+\", \", \", \"), nil\n"),
], "the joined list text trimmed with a cutset")

v("break-c01-shift-eof-in-range", "break", "C01", "SHIFT-END", [
    (P, "\tif next.Typ == lex.TEOF {\n\t\treturn false\n\t}\n\n\tif next.Typ == lex.TErr {\n\t\treturn false\n\t}\n\n\tcurr := p.nonTerminals[len(p.nonTerminals)-1]\n",
        "\tif next.Typ == lex.TErr {\n\t\treturn false\n\t}\n\n\tcurr := p.nonTerminals[len(p.nonTerminals)-1]\n\tif next.Typ == lex.TEOF {\n\t\treturn curr.Typ == lex.TLSquare || curr.Typ == lex.TLCurly\n\t}\n"),
], "end of input is shifted while a range bracket is open: the lexer reports it again and again")
v("break-c01-print-child-twice", "break", "C01", "REC-ONCE", [
    (RN, "\treturn fmt.Sprintf(\"%s(%s)\", toString[e.Op], e.Left)\n}\n\nfunc renderMustNot", "\tif len(fmt.Sprintf(\"%s\", e.Left)) == 0 {\n\t\treturn toString[e.Op] + \"()\"\n\t}\n\treturn fmt.Sprintf(\"%s(%s)\", toString[e.Op], e.Left)\n}\n\nfunc renderMustNot"),
], "a printer formats its child twice on one path: exponential in the nesting depth")
v("break-c01-reflect-len", "break", "C01", "PANIC-LIB", [
    (V_, "func isLiteralExpr(in any) bool {", "func payloadLen(in any) int { return reflect.ValueOf(in).Len() }\n\nfunc isLiteralExpr(in any) bool {"),
    (V_, "func validateLiteral(e *Expression) (err error) {\n\tif e == nil {\n\t\treturn nil\n\t}\n", "func validateLiteral(e *Expression) (err error) {\n\tif e == nil {\n\t\treturn nil\n\t}\n\tif payloadLen(e.Left) < 0 {\n\t\treturn errors.New(\"negative length\")\n\t}\n"),
], "reflect.Value.Len on an untyped payload panics for numbers")
v("break-c02-fill-placeholder-by-search", "break", "C02", "SQL-RESCAN", [
    (RF, "\treturn fmt.Sprintf(\"%s SIMILAR TO %s\", left, right), nil\n}", "\treturn strings.Replace(left+\" SIMILAR TO ?\", \"?\", right, 1), nil\n}"),
], "the pattern is put where a ? is found, and the column name may contain one")
v("break-c10-render-without-error-check", "break", "C10", "ENTRY-TAIL", [
    (("render.go"), "\te, err := Parse(in, opts...)\n\tif err != nil {\n\t\treturn \"\", err\n\t}\n\n\treturn postgres.Render(e)", "\te, _ := Parse(in, opts...)\n\treturn postgres.Render(e)"),
], "ToPostgres renders whatever Parse returned without looking at its error")
v("break-c11-value-test-below-not", "break", "C11", "WRAP-COMMUTE", [
    (R, "func isChainedOrLiterals(in *expr.Expression)", "func negatedValue(in *expr.Expression) bool {\n\tif in.Op != expr.Not {\n\t\treturn false\n\t}\n\tinner, ok := in.Left.(*expr.Expression)\n\treturn ok && inner.Op == expr.Literal\n}\n\nfunc isChainedOrLiterals(in *expr.Expression)"),
    (R, "\tif literals, ok := isChainedOrLiterals(value); ok && len(literals) > 1 {", "\tif negatedValue(value) {\n\t\treturn []any{expr.NOT(expr.Eq(term, value.Left.(*expr.Expression)))}, drop(nonTerminals, 1), true\n\t}\n\tif literals, ok := isChainedOrLiterals(value); ok && len(literals) > 1 {"),
], "a production looks for a bare value below NOT, which NOT has already scoped when a default field is set")
v("break-c14-error-text-with-address", "break", "C14", "FMT-ADDR", [
    (P, "fmt.Errorf(\"multiple expressions left after parsing: %v\", p.stack)", "fmt.Errorf(\"multiple expressions left after parsing: %v\", struct{ items []any }{p.stack})"),
], "the items are printed below an unexported field: fmt prints the pointers as addresses")
v("break-c14-shared-scratch-in-global", "break", "C14", "PUR-G", [
    (P, "var unescaper = strings.NewReplacer(`\\\\`, `\\`, `\\`, \"\")", "type scratch struct{ buf []byte }\n\nfunc (s *scratch) keep(v string) string {\n\ts.buf = append(s.buf[:0], v...)\n\treturn string(s.buf)\n}\n\nvar wordScratch = &scratch{}\n\nvar unescaper = strings.NewReplacer(`\\\\`, `\\`, `\\`, \"\")"),
    (P, "expr.Lit(unescaper.Replace(token.Val))", "expr.Lit(wordScratch.keep(unescaper.Replace(token.Val)))"),
], "a method writes through its receiver, and the receiver is a package-level object shared by all calls")

v("break-c09-reduction-budget", "break", "C09", "PARSE-STATE", [
    (P, "\tdefaultField string\n}", "\tdefaultField string\n\tsteps        int\n}"),
    (P, "\t\t// pull the top off the stack\n", "\t\tp.steps++\n\t\tif p.steps > 100000 {\n\t\t\treturn fmt.Errorf(\"query too complex\")\n\t\t}\n\t\t// pull the top off the stack\n"),
], "a budget counted per reduction step: redundant parentheses cost steps")
v("break-c11-parser-reset", "break", "C11", "DF-IDENT", [
    (P, "func (p *parser) parse() (e *expr.Expression, err error) {", "func (p *parser) restart(input string) {\n\t*p = parser{lex: lex.Lex(input), stack: []any{}, nonTerminals: []lex.Token{{Typ: lex.TStart}}}\n}\n\nfunc (p *parser) parse() (e *expr.Expression, err error) {"),
    (P, "\tex, err := p.parse()\n", "\tex, err := p.parse()\n\tif err != nil && strings.HasSuffix(input, \" \") {\n\t\tp.restart(strings.TrimRight(input, \" \"))\n\t\tex, err = p.parse()\n\t}\n"),
], "a retry re-creates the parser value and loses the default field")
v("break-c11-production-builds-literal", "break", "C11", "WRAP-COMMUTE", [
    (R, "\tif literals, ok := isChainedOrLiterals(value); ok && len(literals) > 1 {", "\tif term.Op == expr.Literal && value.Op == expr.Literal && term.Left == value.Left {\n\t\treturn []any{expr.Lit(true)}, drop(nonTerminals, 1), true\n\t}\n\tif literals, ok := isChainedOrLiterals(value); ok && len(literals) > 1 {"),
], "a production folds x:x into a constant leaf, which later productions scope like a bare term")
v("break-c13-depth-twice", "break", "C13", "REC-ONCE", [
    (E, "// Lit represents a literal expression", "func nesting(e *Expression) int {\n\tif e == nil {\n\t\treturn 0\n\t}\n\treturn 1 + deeper(e.Left)\n}\n\nfunc deeper(operand any) int {\n\tsub, ok := operand.(*Expression)\n\tif !ok {\n\t\treturn 0\n\t}\n\tif nesting(sub) > 0 {\n\t\treturn nesting(sub)\n\t}\n\treturn 0\n}\n\n// Lit represents a literal expression"),
    (E, "\tfn, found := validators[e.Op]\n", "\tif nesting(e) > 100000 {\n\t\treturn fmt.Errorf(\"nested too deeply\")\n\t}\n\tfn, found := validators[e.Op]\n"),
], "a depth guard visits every child twice through a second function: exponential")

v("break-c06-regexp-class-depth", "break", "C06", "REGEXP-LOOP", [
    (L, "\topen := l.next()\n\n\tfor {\n\t\tswitch r := l.next(); {\n\t\tcase isAlphaNumeric(r) || isWildcard(r):\n\t\t\t// do nothing\n\t\tcase isEscape(r):\n\t\t\tl.next() // just ignore the next character",
        "\topen := l.next()\n\tdepth := 0\n\n\tfor {\n\t\tswitch r := l.next(); {\n\t\tcase r == '[':\n\t\t\tdepth++\n\t\tcase r == ']' && depth > 0:\n\t\t\tdepth--\n\t\tcase isAlphaNumeric(r) || isWildcard(r):\n\t\t\t// do nothing\n\t\tcase isEscape(r):\n\t\t\tl.next() // just ignore the next character"),
    (L, "\t\tcase r == open:\n\t\t\treturn l.emit(TRegexp)", "\t\tcase r == open && depth == 0:\n\t\t\treturn l.emit(TRegexp)"),
], "a delimiter inside [ ] does not end the regexp, counted with a depth: [[] never closes")
v("break-c08-word-state-error", "break", "C08", "LEX-ERR-SITES", [
    (L, "func lexWord(l *Lexer) tokenStateFn {\nloop:\n", "func lexWord(l *Lexer) tokenStateFn {\n\tif strings.HasPrefix(l.input[l.start:], \"\\\\\\\\\") {\n\t\treturn l.errorf(\"a word cannot start with an escaped backslash\")\n\t}\nloop:\n"),
], "the word state refuses some words")
v("break-c11-option-skips-names", "break", "C11", "DF-IDENT", [
    (P, "\treturn func(p *parser) {\n\t\tp.defaultField = field", "\treturn func(p *parser) {\n\t\tif field == \"_all\" {\n\t\t\treturn\n\t\t}\n\t\tp.defaultField = field"),
], "the option does not store some field names")
v("break-c08-keyword-values", "break", "C08", "LIT-TYPE", [
    (P, "\t// if it contains unescaped wildcards then it is a wildcard string", "\tif token.Val == \"null\" {\n\t\treturn expr.Lit(\"\"), nil\n\t}\n\n\t// if it contains unescaped wildcards then it is a wildcard string"),
], "the word null becomes the empty string")

v("break-c04-param-only-limit", "break", "C04", "SIB-ERR", [
    (B, "\t\treturn s, params, fmt.Errorf(\"unable to render operator [%s]\", e.Op)", "\t\treturn s, params, fmt.Errorf(\"unable to render operator [%s]\", e.Op)\n\t}\n\tif len(lparams)+len(rparams) > 32767 {\n\t\treturn s, params, fmt.Errorf(\"too many bind parameters\")"),
], "a limit on the number of parameters exists on the parameterized path only")
v("break-c09-reduce-twice-after-group", "break", "C09", "REDUCE-ONCE", [
    (P, "\t\t\tp.stack = append(p.stack, top...)\n\t\t\treturn nil\n", "\t\t\tp.stack = append(p.stack, top...)\n\t\t\tif tok, isTok := s.(lex.Token); isTok && tok.Typ == lex.TLParen && len(p.stack) >= 2 {\n\t\t\t\ttop = []any{}\n\t\t\t\tcontinue\n\t\t\t}\n\t\t\treturn nil\n"),
], "after a group closes the reduce method goes on reducing without the lookahead being consulted")
v("break-c12-power-rounded", "break", "C12", "JSON-ATTR", [
    (E, "\t\tc.BoostPower = &e.boostPower\n", "\t\trounded := float64(int(e.boostPower*100)) / 100\n\t\tc.BoostPower = &rounded\n"),
], "the encoder writes a rounded boost power")

v("break-c13-list-member-nested", "break", "C13", "JSON-LIST-LEAF", [
    (E, "\t\t\tparsedExp, err := unmarshalLiteral(v)\n\t\t\tif err != nil {\n\t\t\t\treturn err\n\t\t\t}\n\t\t\texprs = append(exprs, parsedExp)", "\t\t\tparsedExp := ptr(empty())\n\t\t\terr := json.Unmarshal(v, parsedExp)\n\t\t\tif err != nil {\n\t\t\t\treturn err\n\t\t\t}\n\t\t\texprs = append(exprs, parsedExp)"),
], "a value-list member is decoded as a full nested expression, which Validate never descends into")
v("break-c02-reducer-makes-leaf", "break", "C02", "NODE-SOURCES", [
    (R, "\treturn []any{expr.MUSTNOT(rest)}, drop(nonTerminals, 1), true\n", "\tif word, isWord := rest.Left.(string); isWord && rest.Op == expr.Wild {\n\t\trest = expr.WILD(\"(\" + word + \")\")\n\t}\n\treturn []any{expr.MUSTNOT(rest)}, drop(nonTerminals, 1), true\n"),
], "a reducer builds a pattern leaf from text it assembled: a constant that is not a value of the query")

def main():
    os.makedirs(OUT, exist_ok=True)
    for f in os.listdir(OUT):
        if f.endswith(".patch"):
            os.remove(os.path.join(OUT, f))
    index = []
    for var in V:
        tmp = tempfile.mkdtemp(prefix="mkvar.")
        try:
            subprocess.check_call(f"cd {REPO} && git ls-files -z | xargs -0 cp --parents -t {tmp}", shell=True)
            a = os.path.join(tmp, "a"); b = os.path.join(tmp, "b")
            os.makedirs(a); os.makedirs(b)
            ok = True
            touched = set()
            for (fn, old, new) in var["edits"]:
                touched.add(fn)
            for fn in touched:
                for d in (a, b):
                    os.makedirs(os.path.dirname(os.path.join(d, fn)) or d, exist_ok=True)
                    shutil.copy(os.path.join(tmp, fn), os.path.join(d, fn))
            for (fn, old, new) in var["edits"]:
                p = os.path.join(b, fn)
                s = open(p).read()
                if old not in s:
                    print("EDIT DOES NOT APPLY:", var["name"], fn, repr(old[:50]))
                    ok = False
                    break
                s = s.replace(old, new)
                open(p, "w").write(s)
            if not ok:
                continue
            diff = subprocess.run(["diff", "-ruN", "a", "b"], cwd=tmp, capture_output=True, text=True).stdout
            open(os.path.join(OUT, var["name"] + ".patch"), "w").write(diff)
            index.append({k: var[k] for k in ("name", "kind", "props", "expect", "note")})
        finally:
            shutil.rmtree(tmp)
    json.dump(index, open(os.path.join(OUT, "index.json"), "w"), indent=1)
    print(len(index), "variants written")

if __name__ == "__main__":
    main()
