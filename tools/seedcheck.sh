#!/bin/sh
# usage: seedcheck.sh <seed-dir> [props]  — confirms a seeded change (suite passes, demo fails with it and
# passes without it) in a scratch copy, then runs lucheck on the changed copy.
export GOFLAGS=-mod=mod GOPROXY=off GOSUMDB=off GOTOOLCHAIN=local GOWORK=off
D="$1"; PROPS="${2:-all}"
T=$(mktemp -d /tmp/lucseed.XXXXXX); trap 'rm -rf "$T"' EXIT
(cd /repo && git ls-files -z | xargs -0 cp --parents -t "$T")
DEMODIR=$(cat "$D/demo_dir.txt" 2>/dev/null | tr -d '\n ' ); [ -z "$DEMODIR" ] && DEMODIR=.
RACE=""; grep -q -- '-race' "$D/meta.json" 2>/dev/null && RACE="-race"
cp "$D/demo_test.go" "$T/$DEMODIR/zz_demo_test.go"
if (cd "$T/$DEMODIR" && go test $RACE -vet=off -count=1 -timeout 120s . >"$T/.d0" 2>&1); then echo "demo-without-change: PASS"; else echo "demo-without-change: FAIL(!)"; tail -5 "$T/.d0"; fi
rm "$T/$DEMODIR/zz_demo_test.go"
if ! (cd "$T" && git apply --whitespace=nowarn "$D/patch.diff" 2>"$T/.ap"); then echo "APPLY-FAIL"; cat "$T/.ap"; exit 3; fi
if ! (cd "$T" && go build ./... 2>"$T/.b"); then echo "BUILD-FAIL"; cat "$T/.b"; exit 4; fi
echo "suite-with-change: $(/verif/tools/repotest.sh "$T" | head -1)"
cp "$D/demo_test.go" "$T/$DEMODIR/zz_demo_test.go"
if (cd "$T/$DEMODIR" && go test $RACE -vet=off -count=1 -timeout 120s . >"$T/.d1" 2>&1); then echo "demo-with-change: PASS(!)"; else echo "demo-with-change: FAIL (as required)"; fi
rm "$T/$DEMODIR/zz_demo_test.go"
/verif/bin/lucheck -repo "$T" -verif /verif -property "$PROPS" -no-evidence 2>&1 | sed "s#$T/##g" | grep -E "^VIOLATION|^  rule=|^ERROR|quick:" | sed 's#replay=[^ ]*##' | grep -v " 0 violations"
