#!/bin/sh
# seedfast.sh — regression over /verif/seeded without re-confirming the seeds (that was done at import):
# apply each patch to a scratch copy, build, run lucheck for all properties, print what fires. 8 in parallel.
one() {
  d="$1"; n=$(basename "$d")
  out=$(/verif/tools/variant.sh "$d/patch.diff" all 2>&1)
  props=$(echo "$out" | grep '^VIOLATION' | sed 's/.*property=\([A-Z0-9]*\).*/\1/' | sort -u | tr '\n' ',')
  rules=$(echo "$out" | grep 'rule=' | sed 's/.*rule=\([A-Z0-9-]*\).*/\1/' | sort -u | tr '\n' ',')
  own=$(echo "$n" | cut -d- -f1)
  hit="MISSED"; [ -n "$props" ] && hit="other"; echo "$props" | grep -q "$own" && hit="own"
  echo "$out" | grep -q "APPLY-FAIL\|BUILD-FAIL" && hit="SKIPPED"
  echo "$n detected=$hit props=$props rules=$rules"
}
if [ "$1" = "--one" ]; then one "$2"; exit 0; fi
ls -d /verif/seeded/*/ | xargs -P 8 -n 1 "$0" --one | sort
