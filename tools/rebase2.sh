#!/bin/sh
# usage: rebase2.sh <patchfile> — conflict case: keep the patch's parse.go and port the fix textually
export GOFLAGS=-mod=mod GOPROXY=off GOSUMDB=off GOTOOLCHAIN=local GOWORK=off
P="$1"
W=$(mktemp -d /tmp/rb.XXXXXX); rmdir $W
git -C /repo worktree add -q --detach $W HEAD~1 || exit 9
cd $W
git apply --whitespace=nowarn "$P" || { echo "OLD-APPLY-FAIL $P"; cd /; git -C /repo worktree remove --force $W; exit 1; }
python3 - <<'PY'
import re,glob
done=False
for p in sorted(glob.glob('*.go')):
    if p.endswith('_test.go'): continue
    s=open(p).read()
    s2=re.sub(r'strings\.ReplaceAll\(([A-Za-z_.]+), `\\`, ""\)', r'unescaper.Replace(\1)', s)
    if s2!=s:
        decl="""// unescaper removes the escaping backslashes of a word: an escaped backslash stands for one backslash,
// any other backslash is dropped and the character after it is kept.
var unescaper = strings.NewReplacer(`\\\\`, `\\`, `\\`, "")
"""
        i=s2.index('\n)\n', s2.index('import ('))+3
        s2=s2[:i]+'\n'+decl+s2[i:]
        open(p,'w').write(s2)
        print("PORTED", p); done=True
if not done: print("NO-REPLACEALL-FORM")
PY
gofmt -w *.go
if go build ./... 2>/tmp/rb.err; then
  FIX=$(git -C /repo rev-parse HEAD)
  # diff against the fixed tree
  git add -A
  git diff --cached $FIX > "$P.new"
  if git -C /repo apply --check "$P.new" 2>/dev/null; then echo "OK $P $(/verif/tools/repotest.sh $W | head -1)"; mv "$P.new" "$P"; else echo "NEWCHECK-FAIL $P"; fi
else echo "BUILD-FAIL $P"; head -3 /tmp/rb.err; fi
cd /; git -C /repo worktree remove --force $W
