#!/usr/bin/env python3
"""Replays /verif/variants against scratch copies of /repo (one lucheck process per variant,
in parallel) and reports: break variants must fire the expected rule, keep variants must be silent."""
import json, subprocess, sys, concurrent.futures as cf, os
idx = json.load(open('/verif/variants/index.json'))
only = sys.argv[1] if len(sys.argv) > 1 else ""
def run(v):
    props = v["props"] if v["kind"] == "break" else "all"
    env = dict(os.environ)
    if os.environ.get("RUNTESTS"):
        env["RUNTESTS"] = "1"
    r = subprocess.run(["/verif/tools/variant.sh", f"/verif/variants/{v['name']}.patch", props], capture_output=True, text=True, env=env)
    out = r.stdout
    rules = sorted(set(l.split("rule=")[1].split()[0] for l in out.splitlines() if l.strip().startswith("rule=")))
    nviol = out.count("VIOLATION")
    status = "?"
    if "APPLY-FAIL" in out or "BUILD-FAIL" in out:
        status = "SKIP(" + out.split()[0] + ")"
    elif v["kind"] == "keep":
        status = "ok" if nviol == 0 and "ERROR" not in out else "FALSE-ALARM"
    else:
        fired = nviol > 0 and (v["expect"] == "" or any(v["expect"] in r_ for r_ in rules))
        status = "ok" if fired else ("MISSED" if nviol == 0 else "WRONG-RULE")
    tests = [l for l in out.splitlines() if l.startswith("pass=")]
    return v, status, rules, nviol, tests
vs = [v for v in idx if only in v["name"]]
res = {"break_fired": 0, "break_total": 0, "keep_silent": 0, "keep_total": 0, "skipped": 0, "problems": []}
with cf.ThreadPoolExecutor(max_workers=8) as ex:
    for v, status, rules, nviol, tests in ex.map(run, vs):
        print(f"{status:12s} {v['name']:42s} expect={v['expect']:14s} violations={nviol} rules={','.join(rules)} {' '.join(tests)}")
        if status.startswith("SKIP"):
            res["skipped"] += 1
        elif v["kind"] == "keep":
            res["keep_total"] += 1
            res["keep_silent"] += status == "ok"
        else:
            res["break_total"] += 1
            res["break_fired"] += status == "ok"
        if status not in ("ok",) and not status.startswith("SKIP"):
            res["problems"].append(v["name"] + ":" + status)
print(json.dumps(res))
