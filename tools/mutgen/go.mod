module mutgen

go 1.22
