// mutgen writes mechanical single-site mutants of the non-test Go files of a repository copy.
// usage: mutgen <repo-dir> <out-dir>   → out-dir/<n>/{file.txt (relative path), mutated.go, desc.txt}
// Operators: relational replacement, &&/|| swap, condition negation, integer literal ±1, +/- swap,
// statement deletion (assignments, expression statements, if-blocks without else), swap of two adjacent
// call arguments of identical type text, return-value nil/zero substitution is left out (mostly caught by the build).
package main

import (
	"bytes"
	"fmt"
	"go/ast"
	"go/parser"
	"go/printer"
	"go/token"
	"os"
	"path/filepath"
	"strings"
)

type mutant struct {
	file, desc string
	src        []byte
}

func main() {
	repo, out := os.Args[1], os.Args[2]
	files := []string{"parse.go", "render.go", "internal/lex/lex.go", "pkg/lucene/reduce/reduce.go", "pkg/lucene/expr/expression.go",
		"pkg/lucene/expr/validator.go", "pkg/lucene/expr/renderer.go", "pkg/lucene/expr/operator.go", "pkg/driver/base.go", "pkg/driver/renderfn.go", "pkg/driver/postgresql.go"}
	n := 0
	for _, f := range files {
		path := filepath.Join(repo, f)
		src, err := os.ReadFile(path)
		if err != nil {
			continue
		}
		for _, m := range mutate(f, src) {
			n++
			d := filepath.Join(out, fmt.Sprintf("%04d", n))
			os.MkdirAll(d, 0o755)
			os.WriteFile(filepath.Join(d, "file.txt"), []byte(m.file), 0o644)
			os.WriteFile(filepath.Join(d, "mutated.go"), m.src, 0o644)
			os.WriteFile(filepath.Join(d, "desc.txt"), []byte(m.desc), 0o644)
		}
	}
	fmt.Println(n, "mutants")
}

// each mutation is applied by re-parsing the file and mutating the k-th candidate node of a kind
func mutate(file string, src []byte) []mutant {
	var out []mutant
	kinds := []string{"relop", "logic", "negate", "intlit", "arith", "delstmt", "swapargs", "strlit", "constswap", "funcswap", "boollit", "errnil", "elsedrop", "slicebound", "casedrop", "entrydrop", "fieldswap", "condconst"}
	if only := os.Getenv("MUTKINDS"); only != "" {
		kinds = strings.Split(only, ",")
	}
	for _, kind := range kinds {
		for k := 0; ; k++ {
			fset := token.NewFileSet()
			f, err := parser.ParseFile(fset, file, src, parser.ParseComments)
			if err != nil {
				panic(err)
			}
			markDecls(f)
			descs := apply(fset, f, kind, k)
			if descs == nil {
				break
			}
			for _, desc := range descs {
				if desc == "" {
					continue
				}
				var buf bytes.Buffer
				printer.Fprint(&buf, fset, f)
				out = append(out, mutant{file, fmt.Sprintf("%s: %s", kind, desc), buf.Bytes()})
			}
		}
	}
	return out
}

var fieldNext = map[string]string{"Left": "Right", "Right": "Left", "Min": "Max", "Max": "Min", "start": "pos", "pos": "start"}

func isArrayType(e ast.Expr) bool { _, ok := e.(*ast.ArrayType); return ok }

var relAlt = map[token.Token][]token.Token{
	token.LSS: {token.LEQ}, token.LEQ: {token.LSS}, token.GTR: {token.GEQ}, token.GEQ: {token.GTR},
	token.EQL: {token.NEQ}, token.NEQ: {token.EQL},
}

// apply mutates the k-th candidate of the kind in place; returns nil when there is no k-th candidate,
// a one-element slice with the description otherwise ("" = candidate skipped).
func apply(fset *token.FileSet, f *ast.File, kind string, k int) []string {
	idx := -1
	var res []string
	res_ := &res
	_ = res_
	pos := func(n ast.Node) string { p := fset.Position(n.Pos()); return fmt.Sprintf("%s:%d", p.Filename, p.Line) }
	ast.Inspect(f, func(n ast.Node) bool {
		if res != nil || n == nil {
			return res == nil
		}
		switch kind {
		case "constswap":
			// an enum constant replaced by its neighbour in the declaration order (token types, operators)
			if id, ok := n.(*ast.Ident); ok && id.Obj == nil || ok && id.Obj != nil && id.Obj.Kind == ast.Con {
				if alt, isEnum := enumNext[id.Name]; isEnum && !declPos[id.Pos()] {
					idx++
					if idx == k {
						old := id.Name
						id.Name = alt
						res = []string{fmt.Sprintf("%s %s → %s", pos(id), old, alt)}
					}
				}
			}
		case "funcswap":
			// a call of one of a family of same-signature functions replaced by a sibling
			if call, ok := n.(*ast.CallExpr); ok {
				var id *ast.Ident
				switch fn := call.Fun.(type) {
				case *ast.Ident:
					id = fn
				case *ast.SelectorExpr:
					id = fn.Sel
				}
				if id != nil {
					if alt, isFam := funcNext[id.Name]; isFam {
						idx++
						if idx == k {
							old := id.Name
							id.Name = alt
							res = []string{fmt.Sprintf("%s %s() → %s()", pos(call), old, alt)}
						}
					}
				}
			}
		case "errnil":
			// a returned error variable replaced by nil (the error is swallowed)
			if rs, ok := n.(*ast.ReturnStmt); ok {
				for i, res := range rs.Results {
					if id, ok := res.(*ast.Ident); ok && (id.Name == "err" || strings.HasSuffix(id.Name, "Err")) && i == len(rs.Results)-1 {
						idx++
						if idx == k {
							rs.Results[i] = ast.NewIdent("nil")
							res = rs.Results[i]
							_ = res
							resOut := fmt.Sprintf("%s returned error → nil", pos(rs))
							return setRes(&res_, resOut)
						}
					}
				}
			}
		case "casedrop":
			// one case clause of a switch removed (its values fall to the default / to nothing)
			if cc, ok := n.(*ast.BlockStmt); ok {
				for i, st := range cc.List {
					if c, isCase := st.(*ast.CaseClause); isCase && c.List != nil && len(cc.List) > 1 {
						idx++
						if idx == k {
							cc.List = append(append([]ast.Stmt{}, cc.List[:i]...), cc.List[i+1:]...)
							res = []string{fmt.Sprintf("%s case clause removed", pos(c))}
							return false
						}
					}
				}
			}
		case "entrydrop":
			// one keyed entry of a composite literal (a table row) removed
			if cl, ok := n.(*ast.CompositeLit); ok && len(cl.Elts) > 1 {
				if _, isMap := cl.Type.(*ast.MapType); isMap || cl.Type == nil || isArrayType(cl.Type) {
					for i, e := range cl.Elts {
						idx++
						if idx == k {
							cl.Elts = append(append([]ast.Expr{}, cl.Elts[:i]...), cl.Elts[i+1:]...)
							res = []string{fmt.Sprintf("%s table entry removed", pos(e))}
							return false
						}
					}
				}
			}
		case "fieldswap":
			// a field selector replaced by its sibling field (Left/Right, Min/Max, start/pos)
			if sel, ok := n.(*ast.SelectorExpr); ok {
				if alt, has := fieldNext[sel.Sel.Name]; has {
					idx++
					if idx == k {
						old := sel.Sel.Name
						sel.Sel.Name = alt
						res = []string{fmt.Sprintf("%s .%s → .%s", pos(sel), old, alt)}
					}
				}
			}
		case "condconst":
			// the condition of an if replaced by true, then by false (two mutants per site are too many: k even → true, odd → false)
			if s, ok := n.(*ast.IfStmt); ok {
				for _, v := range []string{"true", "false"} {
					idx++
					if idx == k {
						s.Cond = &ast.Ident{Name: v, NamePos: s.Cond.Pos()}
						res = []string{fmt.Sprintf("%s if condition → %s", pos(s), v)}
						break
					}
				}
			}
		case "elsedrop":
			// an else branch removed
			if s, ok := n.(*ast.IfStmt); ok && s.Else != nil {
				idx++
				if idx == k {
					s.Else = nil
					resOut := fmt.Sprintf("%s else branch removed", pos(s))
					return setRes(&res_, resOut)
				}
			}
		case "slicebound":
			// x[a:b] → x[a:b-1] / x[a+1:b] is covered by intlit when the bounds are literals; here: len(x)-1 → len(x)
			if b, ok := n.(*ast.BinaryExpr); ok && b.Op == token.SUB {
				if call, ok := b.X.(*ast.CallExpr); ok {
					if id, ok := call.Fun.(*ast.Ident); ok && id.Name == "len" {
						if bl, ok := b.Y.(*ast.BasicLit); ok && bl.Value == "1" {
							idx++
							if idx == k {
								bl.Value = "2"
								resOut := fmt.Sprintf("%s len(x)-1 → len(x)-2", pos(b))
								return setRes(&res_, resOut)
							}
						}
					}
				}
			}
		case "boollit":
			if id, ok := n.(*ast.Ident); ok && (id.Name == "true" || id.Name == "false") {
				idx++
				if idx == k {
					old := id.Name
					if old == "true" {
						id.Name = "false"
					} else {
						id.Name = "true"
					}
					res = []string{fmt.Sprintf("%s %s → %s", pos(id), old, id.Name)}
				}
			}
		case "relop":
			if b, ok := n.(*ast.BinaryExpr); ok && relAlt[b.Op] != nil {
				idx++
				if idx == k {
					old := b.Op
					b.Op = relAlt[b.Op][0]
					res = []string{fmt.Sprintf("%s %s → %s", pos(b), old, b.Op)}
				}
			}
		case "logic":
			if b, ok := n.(*ast.BinaryExpr); ok && (b.Op == token.LAND || b.Op == token.LOR) {
				idx++
				if idx == k {
					old := b.Op
					if b.Op == token.LAND {
						b.Op = token.LOR
					} else {
						b.Op = token.LAND
					}
					res = []string{fmt.Sprintf("%s %s → %s", pos(b), old, b.Op)}
				}
			}
		case "negate":
			if s, ok := n.(*ast.IfStmt); ok {
				idx++
				if idx == k {
					s.Cond = &ast.UnaryExpr{Op: token.NOT, X: &ast.ParenExpr{X: s.Cond}}
					res = []string{fmt.Sprintf("%s if-condition negated", pos(s))}
				}
			}
		case "intlit":
			if l, ok := n.(*ast.BasicLit); ok && l.Kind == token.INT {
				idx++
				if idx == k {
					var v int
					if _, err := fmt.Sscan(l.Value, &v); err != nil {
						res = []string{""}
						return false
					}
					old := l.Value
					l.Value = fmt.Sprint(v + 1)
					res = []string{fmt.Sprintf("%s %s → %s", pos(l), old, l.Value)}
				}
			}
		case "arith":
			if b, ok := n.(*ast.BinaryExpr); ok && (b.Op == token.ADD || b.Op == token.SUB) {
				if bl, ok := b.Y.(*ast.BasicLit); ok && bl.Kind == token.STRING {
					return true
				}
				idx++
				if idx == k {
					old := b.Op
					if b.Op == token.ADD {
						b.Op = token.SUB
					} else {
						b.Op = token.ADD
					}
					res = []string{fmt.Sprintf("%s %s → %s", pos(b), old, b.Op)}
				}
			}
		case "delstmt":
			if bl, ok := n.(*ast.BlockStmt); ok {
				for i, st := range bl.List {
					del := false
					switch s := st.(type) {
					case *ast.AssignStmt:
						del = s.Tok != token.DEFINE
					case *ast.ExprStmt, *ast.IncDecStmt:
						del = true
					case *ast.IfStmt:
						del = s.Else == nil && s.Init == nil
					}
					if !del {
						continue
					}
					idx++
					if idx == k {
						res = []string{fmt.Sprintf("%s statement deleted", pos(st))}
						bl.List = append(append([]ast.Stmt{}, bl.List[:i]...), bl.List[i+1:]...)
						return false
					}
				}
			}
		case "swapargs":
			if c, ok := n.(*ast.CallExpr); ok && len(c.Args) >= 2 {
				for i := 0; i+1 < len(c.Args); i++ {
					if !swappable(c.Args[i], c.Args[i+1]) {
						continue
					}
					idx++
					if idx == k {
						c.Args[i], c.Args[i+1] = c.Args[i+1], c.Args[i]
						res = []string{fmt.Sprintf("%s call arguments %d and %d swapped", pos(c), i, i+1)}
						return false
					}
				}
			}
		case "strlit":
			// only one-character string/char literals and short separators: the text tables of the lexer and the SQL fragments
			if l, ok := n.(*ast.BasicLit); ok && (l.Kind == token.CHAR || l.Kind == token.STRING) {
				if strings.Contains(l.Value, "validation") || len(l.Value) > 12 || len(l.Value) < 3 {
					return true
				}
				idx++
				if idx == k {
					old := l.Value
					q := l.Value[:1]
					inner := l.Value[1 : len(l.Value)-1]
					if strings.HasPrefix(inner, "\\") || strings.Contains(inner, "%") {
						res = []string{""}
						return false
					}
					if l.Kind == token.CHAR {
						inner = "#"
					} else {
						inner = inner + "x"
					}
					l.Value = q + inner + q
					res = []string{fmt.Sprintf("%s literal %s → %s", pos(l), old, l.Value)}
				}
			}
		}
		return true
	})
	return res
}

func swappable(a, b ast.Expr) bool {
	// identifiers or selector expressions on both sides (types are checked by the compiler afterwards)
	ok := func(e ast.Expr) bool {
		switch e.(type) {
		case *ast.Ident, *ast.SelectorExpr, *ast.IndexExpr:
			return true
		}
		return false
	}
	return ok(a) && ok(b)
}

// enumNext: the enum constants of the library (token types, operators), each mapped to the next one of its block.
var enumNext = func() map[string]string {
	m := map[string]string{}
	for _, fam := range [][]string{
		{"TErr", "TLiteral", "TQuoted", "TRegexp", "TEqual", "TGreater", "TLess", "TColon", "TPlus", "TMinus", "TTilde", "TCarrot", "TNot", "TAnd", "TOr", "TRParen", "TLParen", "TLCurly", "TRCurly", "TTO", "TLSquare", "TRSquare", "TEOF", "TStart"},
		{"And", "Or", "Equals", "Like", "Not", "Range", "Must", "MustNot", "Boost", "Fuzzy", "Literal", "Wild", "Regexp", "Greater", "Less", "GreaterEq", "LessEq", "In", "List"},
	} {
		for i, n := range fam {
			m[n] = fam[(i+1)%len(fam)]
		}
	}
	return m
}()

// declPos: positions of identifiers that are declarations (filled per file by markDecls).
var declPos = map[token.Pos]bool{}

func markDecls(f *ast.File) {
	declPos = map[token.Pos]bool{}
	ast.Inspect(f, func(n ast.Node) bool {
		switch x := n.(type) {
		case *ast.ValueSpec:
			for _, id := range x.Names {
				declPos[id.Pos()] = true
			}
		case *ast.KeyValueExpr:
			// keys of struct literals are field names, not constants
			if id, ok := x.Key.(*ast.Ident); ok && id.Obj == nil {
				_ = id
			}
		}
		return true
	})
}

var funcNext = func() map[string]string {
	m := map[string]string{}
	for _, fam := range [][]string{
		{"GREATER", "LESS", "GREATEREQ", "LESSEQ"}, {"AND", "OR"}, {"MUST", "MUSTNOT", "NOT"}, {"Lit", "WILD", "REGEXP"}, {"BOOST", "FUZZY"},
		{"HasPrefix", "HasSuffix"}, {"TrimLeft", "TrimRight"}, {"Contains", "ContainsAny"}, {"isInt", "isFloat"}, {"toInts", "toFloats"},
		{"serialize", "serializeParams"}, {"Render", "RenderParam"}, {"next", "peek"}, {"Min", "Max"},
	} {
		for i, n := range fam {
			m[n] = fam[(i+1)%len(fam)]
		}
	}
	return m
}()

func setRes(res **[]string, desc string) bool {
	**res = []string{desc}
	return false
}
