#!/usr/bin/env python3
"""mkseedprompts.py <round> <outdir> — writes one prompt file per property for a seeding sub-agent:
the property text, a scratch worktree path and one-line summaries of all earlier seeded changes for that
property (so that the agent looks elsewhere). Nothing from /verif other than those summaries is given."""
import glob, json, os, sys
rnd, out = sys.argv[1], sys.argv[2]
flavour = open(sys.argv[3]).read().strip() if len(sys.argv) > 3 else ""
os.makedirs(out, exist_ok=True)
props = [json.loads(l) for l in open('/verif/properties.jsonl')]
for p in props:
    pid = p['id']
    wt = f"/tmp/wt/S{rnd}-{pid}"
    earlier = []
    for m in sorted(glob.glob(f"/verif/seeded/{pid}-*/meta.json")):
        try:
            s = json.load(open(m)).get('summary', '')
        except Exception:
            s = ''
        if s:
            earlier.append(' - ' + s[:230])
    text = f"""You are working on a scratch git worktree of the Go library grindlemire/go-lucene (a pure-Go Lucene query-string parser: lexer + shift-reduce parser producing an AST, JSON round-trip, and Postgres SQL filter rendering). Your worktree is {wt} . Work ONLY inside {wt} and {out} ; never read or write /repo, /verif or any other worktree. Do NOT use `git stash` (it is shared between worktrees); revert with `git -C {wt} checkout -- . && git -C {wt} clean -fdq`, or use `git apply -R`.

Environment: no network. Before every go command run: export GOFLAGS=-mod=mod GOPROXY=off GOSUMDB=off GOTOOLCHAIN=local GOWORK=off
The existing test suite is:  (cd {wt} && go test -vet=off -count=1 ./...) && (cd {wt}/fuzz && go test -vet=off -count=1 ./...)

PROPERTY {pid} — "{p['title']}"
Statement: {p['statement']}
Quantified over: {p['quantifier']['text']}

TASK. Produce 3 NEW source changes to NON-test .go files of the library. Each change must:
 1. be realistic — the kind of edit a developer could plausibly make and a reviewer could plausibly approve (a feature, a performance tweak, a clean-up, a bug fix gone slightly wrong);
 2. still compile, and leave the ENTIRE existing test suite passing, unedited;
 3. break the property above;
 4. need something specific to manifest (an unusual input, a particular operator combination, a multi-step sequence, a particular goroutine interleaving, or two cooperating sites that each look fine alone).
Earlier rounds already produced the changes listed below — do NOT repeat them or close variants; look for DIFFERENT mechanisms and different code locations. {{FLAVOUR}}
{chr(10).join(earlier)}
Make the three changes different in kind and in location. Keep each change small (1-25 changed lines).

For each change k = 1,2,3 write into {out}/{pid}-k/ :
  - patch.diff : output of `git diff` against HEAD for that change alone (must apply to a clean checkout with `git apply`);
  - demo_test.go : a self-contained Go test file demonstrating the breakage, plus demo_dir.txt containing the directory (relative to the repository root, e.g. "." or "pkg/driver") into which demo_test.go must be copied to run; the demo must FAIL with the change applied and PASS on the unchanged code (add -race only if the property is about data races, and say so in meta.json);
  - meta.json : {{"property":"{pid}","summary":"one sentence","what_it_needs_to_manifest":"...","files_changed":[...],"demo_run":"exact command","suite_passes_with_change":true,"demo_fails_with_change":true,"demo_passes_without_change":true}}
Verify every one of those claims yourself by actually running the commands. Do not weaken or edit existing tests. If an idea fails one of the requirements, discard it and try another.
When you finish, leave the worktree clean. Reply with a 5-line summary of the three changes.
"""
    open(os.path.join(out, f"prompt-{pid}.txt"), 'w').write(text.replace("{FLAVOUR}", flavour))
print("wrote", len(props), "prompts to", out)
