#!/usr/bin/env python3
"""gencorpus.py <out> [n] [seed] — writes a corpus of query strings (one JSON string per line) for the differential
harness that triages mechanical mutants (tools/mutation/run.sh). Deterministic for a given seed."""
import json, random, sys
out = sys.argv[1]; N = int(sys.argv[2]) if len(sys.argv) > 2 else 4000; rnd = random.Random(int(sys.argv[3]) if len(sys.argv) > 3 else 1)
words = ["a", "b", "foo", "bar", "x1", "_id", "a_b", "名前", "café", "ħ", "AND", "or", "Not", "TO", "to", "nan", "inf", "Infinity", "NaN", "true", "e", "E1"]
nums = ["0", "1", "5", "-1", "007", "10", "1.5", "-0.25", "5.0", "1e3", "1e999", ".5", "5.", "0x10", "1_0", "9007199254740993", "99999999999999999999", "-0", "+1", "2147483648", "1.005", "0.001"]
wild = ["a*", "*", "?", "a?c", "*a*", "f*o?", "é*", "a**", "**", "?*"]
quoted = ['"a b"', '"a"', '""', '"*"', '"a*"', '"?"', '"5"', '"1.5"', '"AND"', '"a:b"', '"(x)"', '"/re/"', '"\'"', "'a b'", "'it'", '"a, b"', '"Smith, J"', '"x\\\\y"', '"tab\\there"', '"é ħ 名"', '"[1 TO 2]"', '"a\'b"', '" "', '"  pad  "', '"%_"', '"a--b"', '";"', '"\\\\"']
regex = ["/ab+c/", "/a/", "//", "/a b/", "/[a-z]+/", "/a\\/b/", "/é/", "/a*/"]
escaped = ["a\\:b", "a\\ b", "\\+a", "a\\*", "\\(a\\)", "a\\\\b", "é\\:ħ", "a\\-b", "1\\.5", "a\\"]
fields = ["a", "b", "f", "field_1", "名", "a.b", "a-b", "x"]
def term(d):
    r = rnd.random()
    if r < 0.30: return rnd.choice(words)
    if r < 0.45: return rnd.choice(nums)
    if r < 0.55: return rnd.choice(wild)
    if r < 0.70: return rnd.choice(quoted)
    if r < 0.76: return rnd.choice(regex)
    if r < 0.82: return rnd.choice(escaped)
    return rnd.choice(words)
def value(d):
    r = rnd.random()
    if r < 0.5: return term(d)
    if r < 0.62:
        lo, hi = rnd.choice(nums + words + ["*"] + quoted), rnd.choice(nums + words + ["*"] + quoted)
        o, c = rnd.choice(["[]", "{}", "[}", "{]"])
        return f"{o}{lo} TO {hi}{c}"
    if r < 0.72: return rnd.choice([">", ">=", "<", "<="]) + rnd.choice(nums + words + quoted)
    if r < 0.84:
        k = rnd.randint(2, 4)
        return "(" + rnd.choice([" OR ", " or ", " "]).join(rnd.choice(words + nums + quoted + wild) for _ in range(k)) + ")"
    if r < 0.9: return "(" + expr(d + 1) + ")"
    return term(d)
def atom(d):
    r = rnd.random()
    if r < 0.45: return rnd.choice(fields) + rnd.choice([":", ":", ":", "="]) + value(d)
    if r < 0.75: return term(d)
    if d < 3 and r < 0.92: return "(" + expr(d + 1) + ")"
    return term(d)
def unary(d):
    a = atom(d)
    r = rnd.random()
    if r < 0.12: a = rnd.choice(["NOT ", "not ", "NOT  "]) + a
    elif r < 0.20: a = "+" + a
    elif r < 0.28: a = "-" + a
    r = rnd.random()
    if r < 0.08: a = a + "~" + rnd.choice(["", "1", "2", "0", "x", "1.5", "-1"])
    elif r < 0.16: a = a + "^" + rnd.choice(["", "2", "1.5", "0", "x", "inf", "nan", "-1", "0.25", "1e2"])
    return a
def expr(d):
    n = rnd.choice([1, 1, 2, 2, 3, 4]) if d < 3 else 1
    parts = [unary(d)]
    for _ in range(n - 1):
        parts.append(rnd.choice([" AND ", " OR ", " ", " and ", " or ", "  ", "\t", "\n", " AND NOT ", " OR -", " +", " && ", " || "]))
        parts.append(unary(d))
    return "".join(parts)
fixed = ["", " ", "a", "a:b", "a:b AND c:d", "a:b OR c:d AND e:f", "NOT a AND b", "+a^2", "a:b c:d e:f", "NOT a:b c:d", "-a:b c:d", "a AND", "AND a", "a:", ":a", "(", ")", "()", "(a", "a)", "a:(b", "a:[1 TO", "a:[1 TO 2", "[1 TO 2]", "a:[1 2]", "a:[TO]", '"', '"abc', "/abc", "a:\"", "a:/", "a b\"", "a~", "a^", "a~^", "a^~", "a~1^2", "a^2~1", "NOT", "NOT NOT a", "+-a", "-+a", "--a", "a - b", "a -b", "a- b", "a-b", "a:-5", "a:-b", "a:+b", "a:>5", "a:>=5", "a:<5", "a:<=5", "a:>", "a:>=", "a:><5", "a:=5", "a==b", "a:b:c", "a:b=c", "(a OR b):c", "(a b):>5", "a:(b OR c)", "a:(b c)", "a:(b AND c)", "a:(b OR c OR d)", "a:(b)", "a:()", "a:(1 OR 2)", "a:(\"x\" OR \"y\")", "a:[* TO *]", "a:{* TO 5}", "a:[5 TO *]", "a:{1 TO 5]", "a:[1 TO 5}", "a:[a TO z]", "a:{a TO z}", "a:[\"a\" TO \"b\"]", "a:[1.5 TO 2.5]", "a:[* TO 9.99]", "a:[1 TO b]", "a:[b:c TO 5]", "a:[(1) TO 5]", "€", "a€b", "a:€", "\x00", "a\x00b", "a:\"\x00\"", "\xff", "a:\xff", "a:\"\xff\"", "\u00a0a", "a\u2003b", "a\rb", "a\x0bb", "a\x0cb", "\ufeffa", "a:b\\", "\\", "a:\\", "a:b*c?d", "a:/b/", "a://", "a:/b", "a:*", "a:?", "a:\"*\"", "a:**", "*:a", "*:*", "a:b~2", "a:b^2", "a:\"b c\"~2", "(a:b OR c:d)^2", "(a b)~", "NOT (a OR b)", "+(a b)", "-(a b)", "a AND (b OR (c AND (d OR e)))", "((((a))))", "((a) AND (b))", "a:((b))", "NOT(a)", "a AND(b)", "(a)AND(b)", "aANDb", "a ANDb", "a AND AND b", "a OR OR b", "a AND OR b", "a NOT b", "a AND NOT b", "a OR NOT b", "TO", "a TO b", "a:TO", "and", "AND", "Or", "nOt a", "a:b AnD c:d", "a:[1 to 5]", "a:[1 tO 5]"]
qs = list(fixed)
seen = set(qs)
while len(qs) < N:
    q = expr(0)
    if rnd.random() < 0.05: q = " " + q + " "
    if rnd.random() < 0.03: q = q[: rnd.randint(0, len(q))]
    if q not in seen:
        seen.add(q); qs.append(q)
# long inputs: deep nesting, long chains
qs.append(" OR ".join(f"id:{i}" for i in range(80)))
qs.append(" ".join(f"w{i}" for i in range(70)))
qs.append("(" * 70 + "a" + ")" * 70)
qs.append("NOT " * 40 + "a")
qs.append("a:(" + " OR ".join(str(i) for i in range(60)) + ")")
qs.append("x" * 300 + ":1")
qs.append("a:" + "é" * 30)
# JSON documents for the decoder (prefixed JSON:)
docs = ['""', 'null', '"a"', '5', '5.0', '1.5', 'true', '"a*"', '"/re/"', '"//"', '[]', '{}', '[1,2]', '{"left":"a","operator":"EQUALS","right":"b"}',
 '{"left":"a","operator":"EQUALS","right":5}', '{"left":"a","operator":"EQUALS","right":5.5}', '{"left":"a","operator":"LIKE","right":"b*"}',
 '{"left":"a","operator":"LIKE","right":"*"}', '{"left":"a","operator":"LIKE","right":"/b/"}', '{"left":"a","operator":"LIKE","right":"b"}',
 '{"left":"a","operator":"RANGE","right":{"min":1,"max":5,"inclusive":true}}', '{"left":"a","operator":"RANGE","right":{"min":"*","max":5,"inclusive":false}}',
 '{"left":"a","operator":"RANGE","right":{"min":1.5,"max":"*","inclusive":true}}', '{"left":"a","operator":"RANGE","right":{"min":"b","max":"c","inclusive":true}}',
 '{"left":"a","operator":"RANGE","right":{"min":{"left":"b","operator":"EQUALS","right":"c"},"max":5,"inclusive":true}}', '{"left":"a","operator":"RANGE"}',
 '{"left":"a","operator":"RANGE","right":"x"}', '{"left":"a","operator":"IN","right":["b","c"]}', '{"left":"a","operator":"IN","right":{"left":["b","c"],"operator":"LIST"}}',
 '{"left":["b","c"],"operator":"LIST"}', '{"left":["b"],"operator":"LIST"}', '{"left":[],"operator":"LIST"}', '{"left":"a","operator":"NOT"}', '{"left":{"left":"a","operator":"EQUALS","right":"b"},"operator":"NOT"}',
 '{"left":null,"operator":"NOT"}', '{"left":"a","operator":"AND","right":null}', '{"left":"a","operator":"AND","right":"b"}', '{"left":{"left":"a","operator":"EQUALS","right":1},"operator":"OR","right":{"left":"b","operator":"EQUALS","right":2}}',
 '{"left":"a","operator":"MUST"}', '{"left":"a","operator":"MUST_NOT"}', '{"left":"a","operator":"FUZZY"}', '{"left":"a","operator":"FUZZY","distance":0}', '{"left":"a","operator":"FUZZY","distance":3}',
 '{"left":"a","operator":"BOOST"}', '{"left":"a","operator":"BOOST","power":2.5}', '{"left":"a","operator":"BOOST","power":0}', '{"left":"a","operator":"BOGUS","right":"b"}', '{"left":"a","operator":"","right":"b"}',
 '{"left":"a","operator":"GREATER","right":5}', '{"left":"a","operator":"GREATER_EQ","right":5}', '{"left":"a","operator":"LESS","right":"x"}', '{"left":"a","operator":"LESS_EQ","right":1.5}',
 '{"left":"a","operator":"GREATER"}', '{"left":5,"operator":"EQUALS","right":"b"}', '{"left":"a b","operator":"EQUALS","right":"b"}', '{"left":"a\"b","operator":"EQUALS","right":"b"}', '{"left":"","operator":"EQUALS","right":"b"}',
 '{"left":"a","operator":"EQUALS","right":""}', '{"left":"a","operator":"EQUALS","right":"é"}', '{"left":"a","operator":"EQUALS","right":"it\u0027s"}', '{"left":"a","operator":"EQUALS","right":9007199254740993}',
 '{"left":"a","operator":"EQUALS","right":1e400}', '{"left":"a","operator":"EQUALS","right":true}', '{"left":"a","operator":"EQUALS","right":[1]}', '{"left":"a","operator":"WILD"}', '{"left":"a","operator":"REGEXP"}', '{"left":"a","operator":"LITERAL"}',
 '{"left":{"left":"a","operator":"LIKE","right":"b?"},"operator":"MUST"}', '{"operator":"EQUALS"}', '{"left":"a"}', '{"right":"a","operator":"NOT"}', '[', '{', '{"left":', '"\ud800"', '{"left":"a","operator":"EQUALS","right":"b","extra":1}']
for d in docs:
    qs.append("JSON:" + d)
with open(out, "w") as f:
    for q in qs:
        f.write(json.dumps(q) + "\n")
print(len(qs), "queries")
