#!/bin/sh
# run.sh <mutants-dir> <out-file> [jobs] — triage of mechanical single-site mutants (tools/mutgen):
# per mutant: scratch copy of /repo with the mutated file; build; existing suite (both modules, with a timeout:
# a mutant may hang); differential digest over the corpus vs the unchanged tree; lucheck on the copy.
# One line per mutant: <id> <status> props=<…> rules=<…> :: <desc>
#   status: nobuild | killed (suite fails) | equivalent (suite passes, same digest) | CHANGED (suite passes,
#   digest differs → a behaviour change the tests do not see)
# This is a measuring instrument for the checker, not a check: nothing registered in MANIFEST.json uses it.
export GOFLAGS=-mod=mod GOPROXY=off GOSUMDB=off GOTOOLCHAIN=local GOWORK=off
M="$1"; OUT="$2"; J="${3:-12}"
CORPUS=/tmp/mut_corpus.jsonl
[ -f $CORPUS ] || python3 /verif/tools/mutation/gencorpus.py $CORPUS 3000 1 >/dev/null
BASE=/tmp/mut_base_digest.txt
one() {
  d="$1"; id=$(basename "$d"); T=$(mktemp -d /tmp/mutrun.XXXXXX)
  (cd /repo && git ls-files -z | xargs -0 cp --parents -t "$T")
  if [ "$id" != "BASE" ]; then cp "$d/mutated.go" "$T/$(cat $d/file.txt)"; desc=$(cat "$d/desc.txt"); else desc=base; fi
  cp /verif/tools/mutation/zz_diff_test.go.txt "$T/zz_diff_test.go"
  if ! (cd "$T" && go build ./... >/dev/null 2>&1 && go vet ./... >/dev/null 2>&1); then echo "$id nobuild :: $desc"; rm -rf "$T"; return; fi
  # the pinned suite without the differential test (no corpus → skipped)
  if ! (cd "$T" && timeout 120 go test -vet=off -count=1 -timeout 90s ./... >/dev/null 2>&1 && cd fuzz && timeout 120 go test -vet=off -count=1 -timeout 90s ./... >/dev/null 2>&1); then echo "$id killed :: $desc"; rm -rf "$T"; return; fi
  (cd "$T" && DIFF_CORPUS=$CORPUS DIFF_OUT="$T/.digest" timeout 300 go test -vet=off -count=1 -timeout 280s -run TestZZDiff . >/dev/null 2>&1)
  if [ "$id" = "BASE" ]; then cp "$T/.digest" $BASE; echo "BASE lines=$(wc -l < $BASE)"; rm -rf "$T"; return; fi
  if [ -f "$T/.digest" ] && cmp -s "$T/.digest" $BASE; then st=equivalent; else st=CHANGED; fi
  rm -f "$T/zz_diff_test.go"
  out=$(/verif/bin/lucheck -repo "$T" -verif /verif -property all -no-evidence 2>&1)
  props=$(echo "$out" | grep '^VIOLATION' | sed 's/.*property=\([A-Z0-9]*\).*/\1/' | sort -u | tr '\n' ',')
  rules=$(echo "$out" | grep 'rule=' | sed 's/.*rule=\([A-Z0-9-]*\).*/\1/' | sort -u | tr '\n' ',')
  ndiff=""
  if [ "$st" = "CHANGED" ] && [ -f "$T/.digest" ]; then ndiff=" difflines=$(diff $BASE "$T/.digest" | grep -c '^>') first=$(diff $BASE "$T/.digest" | grep '^>' | head -1 | cut -c1-160 | tr '\t' ' ')"; fi
  echo "$id $st props=$props rules=$rules$ndiff :: $desc"
  rm -rf "$T"
}
if [ "$1" = "--one" ]; then M="$2"; one "$3"; exit 0; fi
one BASE
ls -d $M/*/ | xargs -P $J -n 1 sh -c '/verif/tools/mutation/run.sh --one "$0" "$1"' "$M" > "$OUT"
echo "done: $(wc -l < $OUT) mutants"
