#!/bin/sh
# usage: rebase.sh <patchfile>  — re-derive the patch on top of /repo HEAD from /repo HEAD~1
P="$1"
W=$(mktemp -d /tmp/rb.XXXXXX); rmdir $W
git -C /repo worktree add -q --detach $W HEAD~1 || exit 9
cd $W
if ! git apply --whitespace=nowarn "$P" 2>/dev/null; then echo "OLD-APPLY-FAIL $P"; cd /; git -C /repo worktree remove --force $W; exit 1; fi
git add -A; git -c user.name=x -c user.email=x@x commit -qm tmp
FIX=$(git -C /repo rev-parse HEAD)
if git -c user.name=x -c user.email=x@x cherry-pick $FIX >/dev/null 2>&1; then
  git diff $FIX HEAD > "$P.new"
  if git -C /repo apply --check "$P.new" 2>/dev/null; then mv "$P.new" "$P"; echo "REBASED $P"; else echo "NEWCHECK-FAIL $P"; fi
else
  echo "CONFLICT $P"; git diff --name-only --diff-filter=U | head -3
  git cherry-pick --abort
fi
cd /; git -C /repo worktree remove --force $W
