#!/usr/bin/env python3
"""seedimport.py <seed-dir> <name> — verifies a sub-agent's seeded change with seedcheck.sh and, if it is
confirmed (suite passes with it, demo fails with it and passes without it), stores it as
/verif/seeded/<name>/ with what was run and which checks fired."""
import json, os, shutil, subprocess, sys
src, name = sys.argv[1], sys.argv[2]
out = subprocess.run(["/verif/tools/seedcheck.sh", src, "all"], capture_output=True, text=True).stdout
ok = "demo-without-change: PASS" in out and "suite-with-change: pass=320 fail=0" in out and "demo-with-change: FAIL" in out
print(out[:3000])
if not ok:
    print("NOT CONFIRMED — not imported")
    sys.exit(1)
dst = f"/verif/seeded/{name}"
os.makedirs(dst, exist_ok=True)
for f in ("patch.diff", "demo_test.go", "demo_dir.txt"):
    if os.path.exists(os.path.join(src, f)):
        shutil.copy(os.path.join(src, f), dst)
meta = {}
try:
    meta = json.load(open(os.path.join(src, "meta.json")))
except Exception as e:
    meta = {"note": "sub-agent meta.json unreadable: %s" % e}
rules = sorted(set(l.split("rule=")[1].split()[0] for l in out.splitlines() if l.strip().startswith("rule=")))
props = sorted(set(l.split("property=")[1].split()[0] for l in out.splitlines() if l.startswith("VIOLATION")))
meta["confirmed_by"] = {
    "ran": "tools/seedcheck.sh: scratch copy of /repo HEAD; demo on unchanged copy; git apply patch.diff; go build ./...; tools/repotest.sh (both modules, 320 tests); demo on changed copy; lucheck -property all on the changed copy",
    "demo_without_change": "PASS", "suite_with_change": "pass=320 fail=0", "demo_with_change": "FAIL",
    "repo_commit": subprocess.check_output(["git", "-C", "/repo", "rev-parse", "--short", "HEAD"], text=True).strip(),
}
meta["detected_by_properties"] = props
meta["detected_by_rules"] = rules
json.dump(meta, open(os.path.join(dst, "meta.json"), "w"), indent=1)
print("imported", name, "detected by", props, rules)
