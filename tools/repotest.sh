#!/bin/sh
# runs the repository's pinned suite (both modules) and prints pass/fail counts
export GOFLAGS=-mod=mod GOPROXY=off GOSUMDB=off GOTOOLCHAIN=local GOWORK=off
REPO=${1:-/repo}
out=$(mktemp)
(cd "$REPO" && go test -json -vet=off -count=1 ./... ; cd "$REPO/fuzz" && go test -json -vet=off -count=1 ./...) > "$out" 2>&1
pass=$(grep -c '"Action":"pass","Package":"[^"]*","Test"' "$out")
fail=$(grep -c '"Action":"fail"' "$out")
echo "pass=$pass fail=$fail"
if [ "$fail" != "0" ]; then grep '"Action":"fail"' "$out" | head -20; grep '"Output"' "$out" | grep -i -E 'panic|FAIL|expected|wanted' | head -20; fi
rm -f "$out"
[ "$fail" = "0" ] && [ "$pass" -ge 320 ]
