#!/bin/sh
# usage: ref2run.sh dir... ; prints per-dir distinct rules firing
for d in "$@"; do
  out=$(/verif/tools/refcheck.sh $d 2>&1)
  suite=$(echo "$out" | grep '^suite' )
  rules=$(echo "$out" | grep 'rule=' | sed 's/.*rule=\([A-Z0-9-]*\).*/\1/' | sort | uniq -c | tr '\n' ' ')
  echo "$(basename $d): $suite :: $rules"
done
