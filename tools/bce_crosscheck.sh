#!/bin/sh
# Completeness cross-check of the panic-site inventory (thorough tier, C01/C13): every bounds check the
# Go compiler could NOT prove away (-d=ssa/check_bce, inlining off so positions stay in the original
# function) must be an instruction of lucheck's index/slice inventory. A position the compiler reports
# that the inventory does not contain is a defect of the CHECKER (exit 3), never a pass.
export GOFLAGS=-mod=mod GOPROXY=off GOSUMDB=off GOTOOLCHAIN=local GOWORK=off
REPO=${1:-/repo}
T=$(mktemp -d /tmp/lucbce.XXXXXX); trap 'rm -rf "$T"' EXIT
(cd "$REPO" && GOCACHE="$T/cache" go build -gcflags='-l -d=ssa/check_bce/debug=1' ./... 2>&1) | grep 'Found Is' | sed 's#^\./##' | grep -v '^cmd/' | sed 's/: Found.*//' | sort -u > "$T/bce"
/verif/bin/lucheck -repo "$REPO" -dump sites | awk '{print $1}' | sort -u > "$T/sites"
missing=$(comm -23 "$T/bce" "$T/sites")
n=$(wc -l < "$T/bce"); m=$(wc -l < "$T/sites")
if [ -n "$missing" ]; then echo "BCE-CROSSCHECK FAILED: compiler-unproven bounds checks missing from the inventory:"; echo "$missing"; exit 3; fi
echo "BCE-CROSSCHECK ok: $n compiler-unproven bounds checks, all among the $m inventoried index/slice instructions"
