#!/bin/sh
# usage: refcheck.sh <dir-with-patch.diff> — a behaviour-preserving refactoring must leave all 16 checks silent
export GOFLAGS=-mod=mod GOPROXY=off GOSUMDB=off GOTOOLCHAIN=local GOWORK=off
D="$1"
T=$(mktemp -d /tmp/lucref.XXXXXX); trap 'rm -rf "$T"' EXIT
(cd /repo && git ls-files -z | xargs -0 cp --parents -t "$T")
if ! (cd "$T" && git apply --whitespace=nowarn "$D/patch.diff" 2>"$T/.ap"); then echo "APPLY-FAIL $(head -2 $T/.ap)"; exit 3; fi
if ! (cd "$T" && go build ./... 2>"$T/.b"); then echo "BUILD-FAIL"; exit 4; fi
echo "suite: $(/verif/tools/repotest.sh "$T" | head -1)"
${LUCHECK:-/verif/bin/lucheck} -repo "$T" -verif /verif -property all -no-evidence 2>&1 | sed "s#$T/##g" | grep -E "^VIOLATION|^  rule=|^ERROR" | sed 's#replay=[^ ]*##'
