#!/bin/sh
# full self-validation of the checker: unchanged tree, textual variants, sub-agent refactorings, seeded changes
echo "== unchanged tree"; /verif/bin/lucheck -repo /repo -verif /verif -property all -no-evidence | grep -E "VIOLATION|ERROR|quick:" | grep -v " 0 violations"
echo "== variants"; python3 /verif/tools/runvariants.py | grep -v "^ok"
echo "== refactorings (must be silent)"; for d in /verif/refactors/*/; do n=$(basename $d); out=$(/verif/tools/refcheck.sh $d | grep -c "rule="); [ "$out" != "0" ] && echo "FALSE ALARM $n: $out"; done; echo "refactorings: $(ls /verif/refactors | wc -l)"
echo "== seeded changes"; /verif/tools/seedmatrix.sh > /tmp/seedmatrix.txt; grep -v "detected=own" /tmp/seedmatrix.txt | cut -c1-200; echo "own: $(grep -c detected=own /tmp/seedmatrix.txt) / $(wc -l < /tmp/seedmatrix.txt)"
