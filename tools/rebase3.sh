#!/bin/sh
# usage: rebase3.sh <patchfile> — adjacency conflicts: apply with reduced context on the new tree, regenerate
export GOFLAGS=-mod=mod GOPROXY=off GOSUMDB=off GOTOOLCHAIN=local GOWORK=off
P="$1"
W=$(mktemp -d /tmp/rb.XXXXXX); rmdir $W
git -C /repo worktree add -q --detach $W HEAD || exit 9
cd $W
if git apply -C1 --whitespace=nowarn "$P" 2>/tmp/rb.err; then
  if go build ./... 2>/tmp/rb.err; then git add -A; git diff --cached HEAD > "$P.new"; mv "$P.new" "$P"; echo "OK $P $(/verif/tools/repotest.sh $W | head -1)"; else echo "BUILD-FAIL $P"; head -3 /tmp/rb.err; fi
else echo "APPLY-C1-FAIL $P"; head -3 /tmp/rb.err; fi
cd /; git -C /repo worktree remove --force $W
