#!/bin/sh
# thorough tier: the same rules (they are exhaustive over the code's paths already), plus the
# checker self-validation replay over /verif/variants for this property, recorded in the evidence.
ID="$1"
exec /verif/bin/lucheck -repo /repo -verif /verif -property "$ID" -tier thorough -evidence /verif/evidence/"$ID".json
