#!/bin/sh
# thorough tier for one property:
#  1. the property's rules on /repo's current tree (they are exhaustive over the code's paths);
#  2. checker self-validation: every break-variant registered for this property must make the check
#     fire, every keep-variant must leave this property's check silent (scratch copies under mktemp,
#     removed after each); a variant whose patch no longer applies to a changed tree is skipped;
#  3. for C01/C13: the BCE completeness cross-check of the panic-site inventory.
# The verdict on /repo comes from step 1 only; steps 2–3 are recorded in the evidence
# (coverage.checker_validation) and make the command fail with exit 3 only when they reveal a defect of
# the CHECKER on the unchanged tree layout (never a VIOLATION line).
ID="$1"
X=$(mktemp /tmp/lucthorough.XXXXXX.json); trap 'rm -f "$X"' EXIT
python3 - "$ID" > "$X" <<'PY'
import json, subprocess, sys, concurrent.futures as cf
pid = sys.argv[1]
idx = json.load(open('/verif/variants/index.json'))
def run(v):
    pf = f"/verif/variants/{v['name']}.patch"
    if v["name"].startswith("../refactors/"):
        pf = "/verif/refactors/" + v["name"].split("/")[2] + "/patch.diff"
    r = subprocess.run(["/verif/tools/variant.sh", pf, pid], capture_output=True, text=True)
    out = r.stdout
    if "APPLY-FAIL" in out or "BUILD-FAIL" in out:
        return v["name"], "skipped"
    fired = "VIOLATION" in out
    return v["name"], ("fired" if fired else "silent")
vs = [v for v in idx if v["kind"] == "keep" or v["props"] == pid]
# behaviour-preserving refactorings written by independent sub-agents (kept under /verif/refactors)
import glob as _g, os as _os
for rp in sorted(_g.glob("/verif/refactors/*/patch.diff")):
    vs.append({"name": "../refactors/" + _os.path.basename(_os.path.dirname(rp)) + "/patch", "kind": "keep", "props": "all", "expect": ""})
res = {"break_fired": 0, "break_total": 0, "keep_silent": 0, "keep_total": 0, "skipped": 0, "problems": []}
with cf.ThreadPoolExecutor(max_workers=8) as ex:
    for (name, st), v in zip(ex.map(run, vs), vs):
        if st == "skipped":
            res["skipped"] += 1
        elif v["kind"] == "keep":
            res["keep_total"] += 1
            res["keep_silent"] += st == "silent"
            if st != "silent":
                res["problems"].append(name + ": false alarm")
        else:
            res["break_total"] += 1
            res["break_fired"] += st == "fired"
            if st != "fired":
                res["problems"].append(name + ": not detected")
# seeded changes written by independent sub-agents for this property (kept under /verif/seeded)
import glob, os
seeds = sorted(glob.glob(f"/verif/seeded/{pid}-*/patch.diff"))
sres = {"seeded_total": 0, "seeded_fired": 0, "seeded_skipped": 0, "seeded_missed": []}
def runseed(p):
    r = subprocess.run(["/verif/tools/variant.sh", p, pid], capture_output=True, text=True)
    if "APPLY-FAIL" in r.stdout or "BUILD-FAIL" in r.stdout:
        return p, "skipped"
    return p, ("fired" if "VIOLATION" in r.stdout else "silent")
with cf.ThreadPoolExecutor(max_workers=8) as ex:
    for p, st in ex.map(runseed, seeds):
        name = os.path.basename(os.path.dirname(p))
        if st == "skipped":
            sres["seeded_skipped"] += 1
        else:
            sres["seeded_total"] += 1
            if st == "fired":
                sres["seeded_fired"] += 1
            else:
                sres["seeded_missed"].append(name)
res.update(sres)
out = {"checker_validation": res}
if pid in ("C01", "C13"):
    b = subprocess.run(["/verif/tools/bce_crosscheck.sh", "/repo"], capture_output=True, text=True)
    out["bce_crosscheck"] = b.stdout.strip()
    if b.returncode != 0:
        res["problems"].append("BCE cross-check failed")
print(json.dumps(out))
PY
/verif/bin/lucheck -repo /repo -verif /verif -property "$ID" -tier thorough -extra "$X" -evidence /verif/evidence/"$ID".json
rc=$?
python3 - "$X" <<'PY'
import json, sys
d = json.load(open(sys.argv[1]))
cv = d.get("checker_validation", {})
print("checker validation:", json.dumps(cv), d.get("bce_crosscheck", ""))
PY
exit $rc
